"""Reference for C07 written from docs/evolve_spec.rst: how a value of spec version X reads under version Y.

view(dt_to, dt_from, sh, rename) -> (shadow in terms of the TO-spec's ir types, unknown)
   unknown = the FROM-message contains something the TO-spec does not know (a field, a tag, a subtype, a payload on
   a tag that is Void in TO).  Rules (older receiver): unknown fields are ignored, an unknown tag reads as the
   catch-all tag, an unknown subtype reads as the base struct (its fields only), the payload of a tag that the
   receiver knows as Void is ignored.  (newer receiver): missing optional fields are unset (read as defaults).
"""
from stone.ir import (
    is_alias, is_list_type, is_map_type, is_nullable_type, is_struct_type, is_union_type, is_void_type,
)


class Incompatible(Exception):
    """the pair of types is not related by the compatible edits this model knows"""


class Inconsistent(Exception):
    """the receiving spec declares an OPEN union, yet its description carries no catch-all tag: unknown tags cannot be
    read as documented (docs/evolve_spec.rst) -- a violation, not an incompatibility of the pair"""


def unalias(dt):
    while is_alias(dt):
        dt = dt.data_type
    return dt


def view(dt_to, dt_from, sh, rename):
    dt_to, dt_from = unalias(dt_to), unalias(dt_from)
    if is_nullable_type(dt_from) or is_nullable_type(dt_to):
        if sh is None:
            return None, False
        a = dt_to.data_type if is_nullable_type(dt_to) else dt_to
        b = dt_from.data_type if is_nullable_type(dt_from) else dt_from
        return view(a, b, sh, rename)
    if is_list_type(dt_from):
        out, unk = [], False
        for x in sh:
            v, u = view(dt_to.data_type, dt_from.data_type, x, rename)
            out.append(v)
            unk = unk or u
        return out, unk
    if is_map_type(dt_from):
        out, unk = {}, False
        for k, x in sh.items():
            v, u = view(dt_to.value_data_type, dt_from.value_data_type, x, rename)
            out[k] = v
            unk = unk or u
        return out, unk
    if is_struct_type(dt_from):
        _, actual_from, fields = sh
        if dt_from.has_enumerated_subtypes():
            to_leaf = None
            tag = [f.name for f in dt_from.get_enumerated_subtypes() if f.data_type is actual_from][0]
            for f in dt_to.get_enumerated_subtypes():
                if f.name == tag:
                    to_leaf = f.data_type
            if to_leaf is None:
                if not dt_to.is_catch_all():
                    raise Incompatible('new subtype under a struct that is not a catch-all')
                actual_to = dt_to
                unk = True
            else:
                actual_to = to_leaf
                unk = False
        else:
            actual_to = dt_to
            unk = False
        to_fields = {f.name: f for f in actual_to.all_fields}
        from_fields = {f.name: f for f in actual_from.all_fields}
        out = {}
        for name, fsh in fields.items():
            if name not in to_fields:
                unk = True
                continue
            v, u = view(to_fields[name].data_type, from_fields[name].data_type, fsh, rename)
            out[name] = v
            unk = unk or u
        return ('struct', actual_to, out), unk
    if is_union_type(dt_from):
        _, u_from, tag, vsh = sh
        to_fields = {f.name: f for f in dt_to.all_fields}
        from_fields = {f.name: f for f in u_from.all_fields}
        if tag not in to_fields:
            catch = [f.name for f in dt_to.all_fields if f.catch_all]
            if not catch:
                if not dt_to.closed:
                    raise Inconsistent('open union %s has no catch-all tag' % dt_to.name)
                raise Incompatible('new tag in a closed union')
            return ('union', dt_to, catch[0], None), True
        ft_to = unalias(to_fields[tag].data_type)
        ft_from = unalias(from_fields[tag].data_type)
        if is_void_type(ft_to) and not is_void_type(ft_from):
            return ('union', dt_to, tag, None), vsh is not None
        if is_void_type(ft_from) and not is_void_type(ft_to):
            if not is_nullable_type(ft_to):
                raise Incompatible('Void -> non-nullable type read by the newer side: not promised')
            return ('union', dt_to, tag, None), False
        v, unk = view(to_fields[tag].data_type, from_fields[tag].data_type, vsh, rename)
        return ('union', dt_to, tag, v), unk
    return sh, False
