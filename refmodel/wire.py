"""Reference encoder written from docs/json_serializer.rst, driven by the stone.ir description of the
type (never by the generated reflection tables) and by the shadow of the value (see vlib.valgen).

Document facts used (json_serializer.rst):
  * struct -> object, one key per *set* field; unset optional fields omitted
  * struct that enumerates subtypes -> same, plus ".tag" naming the subtype
  * union: void member / null member -> {".tag": tag}; member that is an ordinary struct -> the struct's
    object with ".tag" added; every other member -> {".tag": tag, tag: value}
  * Bytes -> base64 string; Timestamp -> strftime(format); numbers -> numbers; Void -> null;
    List -> array; Map -> object (recursively)
"""
import base64

from stone.ir import (
    is_alias, is_bytes_type, is_list_type, is_map_type, is_nullable_type, is_struct_type, is_timestamp_type,
    is_union_type, is_void_type,
)


def unalias(dt):
    while is_alias(dt):
        dt = dt.data_type
    return dt


def subtype_tag(root, leaf):
    for f in root.get_enumerated_subtypes():
        if f.data_type is leaf:
            return f.name
    raise AssertionError('not an enumerated subtype')


BLOT_MASK = '********'


def ref_redact(redactor, val):
    """C13: the clear text is replaced by the blot mask, by the configured regex groups joined with ***, or by its
    md5 hash (followed by the groups in parentheses when a regex is configured and matches)."""
    import hashlib
    import re
    from stone.ir.data_types import RedactedHash
    groups = None
    if redactor.regex and isinstance(val, str):
        m = re.search(redactor.regex, val)
        if m:
            groups = '***'.join(m.groups())
    if isinstance(redactor, RedactedHash):
        text = str(val) if isinstance(val, (int, float)) else val
        digest = hashlib.md5(text.encode('utf-8')).hexdigest()
        if groups is not None:
            return '%s (%s)' % (digest, groups)
        return digest
    if groups is not None:
        return groups
    return BLOT_MASK


def _redact_value(redactor, sh):
    if isinstance(sh, list):
        return [ref_redact(redactor, x) for x in sh]
    if isinstance(sh, dict):
        return {k: ref_redact(redactor, v) for k, v in sh.items()}
    return ref_redact(redactor, sh)


def ref_encode(dt, sh, perms=(), redact=False, redactor=None):
    """dt: declared ir type at this position; sh: shadow; perms: caller classes held; redact: redaction requested;
    redactor: the field-level redactor that applies at this position (C13)"""
    if redact and redactor is not None and sh is not None:
        return _redact_value(redactor, sh)
    while is_alias(dt):
        if redact and dt.redactor is not None and sh is not None:
            return _redact_value(dt.redactor, sh)
        dt = dt.data_type
    if is_nullable_type(dt):
        if sh is None:
            return None
        return ref_encode(dt.data_type, sh, perms, redact)
    if is_void_type(dt):
        return None
    if is_list_type(dt):
        return [ref_encode(dt.data_type, x, perms, redact) for x in sh]
    if is_map_type(dt):
        return {k: ref_encode(dt.value_data_type, v, perms, redact) for k, v in sh.items()}
    if is_struct_type(dt):
        _, actual, fields = sh
        out = {}
        if dt.has_enumerated_subtypes():
            out['.tag'] = subtype_tag(dt, actual)
        byname = {f.name: f for f in actual.all_fields}
        for name, fsh in fields.items():
            f = byname[name]
            if f.omitted_caller is not None and f.omitted_caller not in perms:
                continue
            out[name] = ref_encode(f.data_type, fsh, perms, redact, f.redactor)
        return out
    if is_union_type(dt):
        _, u, tag, vsh = sh
        f = [x for x in u.all_fields if x.name == tag][0]
        ft = unalias(f.data_type)
        if is_void_type(ft) or (is_nullable_type(ft) and vsh is None):
            return {'.tag': tag}
        enc = ref_encode(f.data_type, vsh, perms, redact, f.redactor)
        if is_nullable_type(ft):
            ft = unalias(ft.data_type)
        if is_struct_type(ft) and not ft.has_enumerated_subtypes():
            out = {'.tag': tag}
            out.update(enc)
            return out
        return {'.tag': tag, tag: enc}
    if is_bytes_type(dt):
        return base64.b64encode(sh).decode('ascii')
    if is_timestamp_type(dt):
        return sh.strftime(dt.format)
    return sh
