"""Reference encoder written from docs/json_serializer.rst, driven by the stone.ir description of the
type (never by the generated reflection tables) and by the shadow of the value (see vlib.valgen).

Document facts used (json_serializer.rst):
  * struct -> object, one key per *set* field; unset optional fields omitted
  * struct that enumerates subtypes -> same, plus ".tag" naming the subtype
  * union: void member / null member -> {".tag": tag}; member that is an ordinary struct -> the struct's
    object with ".tag" added; every other member -> {".tag": tag, tag: value}
  * Bytes -> base64 string; Timestamp -> strftime(format); numbers -> numbers; Void -> null;
    List -> array; Map -> object (recursively)
"""
import base64

from stone.ir import (
    is_alias, is_bytes_type, is_list_type, is_map_type, is_nullable_type, is_struct_type, is_timestamp_type,
    is_union_type, is_void_type,
)


def unalias(dt):
    while is_alias(dt):
        dt = dt.data_type
    return dt


def subtype_tag(root, leaf):
    for f in root.get_enumerated_subtypes():
        if f.data_type is leaf:
            return f.name
    raise AssertionError('not an enumerated subtype')


def ref_encode(dt, sh):
    """dt: declared ir type at this position; sh: shadow"""
    dt = unalias(dt)
    if is_nullable_type(dt):
        if sh is None:
            return None
        return ref_encode(dt.data_type, sh)
    if is_void_type(dt):
        return None
    if is_list_type(dt):
        return [ref_encode(dt.data_type, x) for x in sh]
    if is_map_type(dt):
        return {k: ref_encode(dt.value_data_type, v) for k, v in sh.items()}
    if is_struct_type(dt):
        _, actual, fields = sh
        out = {}
        if dt.has_enumerated_subtypes():
            out['.tag'] = subtype_tag(dt, actual)
        byname = {f.name: f for f in actual.all_fields}
        for name, fsh in fields.items():
            out[name] = ref_encode(byname[name].data_type, fsh)
        return out
    if is_union_type(dt):
        _, u, tag, vsh = sh
        f = [x for x in u.all_fields if x.name == tag][0]
        ft = unalias(f.data_type)
        if is_void_type(ft) or (is_nullable_type(ft) and vsh is None):
            return {'.tag': tag}
        if is_nullable_type(ft):
            ft = unalias(ft.data_type)
        enc = ref_encode(ft, vsh)
        if is_struct_type(ft) and not ft.has_enumerated_subtypes():
            out = {'.tag': tag}
            out.update(enc)
            return out
        return {'.tag': tag, tag: enc}
    if is_bytes_type(dt):
        return base64.b64encode(sh).decode('ascii')
    if is_timestamp_type(dt):
        return sh.strftime(dt.format)
    return sh
