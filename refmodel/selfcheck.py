"""Runs the reference models concretely on vectors taken from the repository's documentation and tests."""
import json


def run():
    fails = []
    from stone.frontend.frontend import specs_to_ir
    from refmodel import wire
    # docs/json_serializer.rst examples
    spec = '''namespace d
struct Coordinate
    x Int64
    y Int64
union Infinity
    positive
    negative
union U
    singularity
    number Int64
    coord Coordinate?
    infinity Infinity
struct A
    union
        b B
        c C
    w Int64
struct B extends A
    x Int64
struct C extends A
    y Int64
struct SurveyAnswer
    age Int64
    name String = "John"
    address String?
'''
    api = specs_to_ir([('d.stone', spec)])
    ns = api.namespaces['d']
    T = ns.data_type_by_name
    coord = ('struct', T['Coordinate'], {'x': 1, 'y': 2})
    cases = [
        (T['Coordinate'], coord, {'x': 1, 'y': 2}),
        (T['SurveyAnswer'], ('struct', T['SurveyAnswer'], {'age': 28}), {'age': 28}),
        (T['A'], ('struct', T['B'], {'w': 1, 'x': 1}), {'.tag': 'b', 'w': 1, 'x': 1}),
        (T['U'], ('union', T['U'], 'singularity', None), {'.tag': 'singularity'}),
        (T['U'], ('union', T['U'], 'number', 42), {'.tag': 'number', 'number': 42}),
        (T['U'], ('union', T['U'], 'coord', coord), {'.tag': 'coord', 'x': 1, 'y': 2}),
        (T['U'], ('union', T['U'], 'coord', None), {'.tag': 'coord'}),
        (T['U'], ('union', T['U'], 'infinity', ('union', T['Infinity'], 'positive', None)),
         {'.tag': 'infinity', 'infinity': {'.tag': 'positive'}}),
    ]
    for dt, sh, want in cases:
        got = wire.ref_encode(dt, sh)
        if got != want:
            fails.append('ref_encode(%s) = %s, documentation says %s' % (dt.name, json.dumps(got), json.dumps(want)))
    return fails
