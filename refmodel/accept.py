"""Reference validator for JSON documents, written from docs/json_serializer.rst, docs/evolve_spec.rst and the
type semantics of docs/lang_ref.rst; driven by the stone.ir description.  Three-valued:

    ACC  the documents say the decoder must accept this document for this type
    REJ  the documents say it must be rejected
    UNS  the documents are silent -> not judged

ref_validate(dt, doc, strict) never looks at the generated reflection tables.
"""
import math
import re

from stone.ir import (
    is_alias, is_boolean_type, is_bytes_type, is_float_type, is_integer_type, is_list_type, is_map_type,
    is_nullable_type, is_string_type, is_struct_type, is_timestamp_type, is_union_type, is_void_type,
)

ACC, REJ, UNS = 'accept', 'reject', 'unspecified'

KNOWN_B64 = {'': b'', 'AP8=': b'\x00\xff', 'YWJj': b'abc', 'AQEB' * 20: b'\x01' * 60}
KNOWN_TS = {'2015-05-12T15:50:38Z', '1999-12-31T23:59:59Z'}
TS_FORMAT = '%Y-%m-%dT%H:%M:%SZ'


def unalias(dt):
    while is_alias(dt):
        dt = dt.data_type
    return dt


def combine(verdicts):
    """all must hold: any REJ -> REJ, else any UNS -> UNS, else ACC"""
    out = ACC
    for v in verdicts:
        if v == REJ:
            return REJ
        if v == UNS:
            out = UNS
    return out


def _is_int(x):
    return isinstance(x, int) and not isinstance(x, bool)


def ref_validate(dt, doc, strict):
    dt = unalias(dt)
    if is_nullable_type(dt):
        if doc is None:
            return ACC
        return ref_validate(dt.data_type, doc, strict)
    if is_void_type(dt):
        if doc is None:
            return ACC
        return REJ if strict else UNS
    if is_integer_type(dt):
        if isinstance(doc, bool):
            return UNS
        if isinstance(doc, float):
            return UNS
        if not _is_int(doc):
            return REJ
        lo = dt.minimum if dt.min_value is None else max(dt.minimum, dt.min_value)
        hi = dt.maximum if dt.max_value is None else min(dt.maximum, dt.max_value)
        return ACC if lo <= doc <= hi else REJ
    if is_float_type(dt):
        if isinstance(doc, bool):
            return UNS
        if _is_int(doc):
            if abs(doc) >= 2**53:
                return UNS
            x = doc
        elif isinstance(doc, float):
            if math.isnan(doc) or math.isinf(doc):
                return REJ
            x = doc
        else:
            return REJ
        if dt.minimum is not None and x < dt.minimum:
            return REJ
        if dt.maximum is not None and x > dt.maximum:
            return REJ
        if dt.min_value is not None and x < dt.min_value:
            return REJ
        if dt.max_value is not None and x > dt.max_value:
            return REJ
        return ACC
    if is_boolean_type(dt):
        return ACC if isinstance(doc, bool) else REJ
    if is_string_type(dt):
        if not isinstance(doc, str):
            return REJ
        if dt.min_length is not None and len(doc) < dt.min_length:
            return REJ
        if dt.max_length is not None and len(doc) > dt.max_length:
            return REJ
        if dt.pattern and re.fullmatch(dt.pattern, doc) is None:
            return REJ
        return ACC
    if is_bytes_type(dt):
        if not isinstance(doc, str):
            return REJ
        return ACC if doc in KNOWN_B64 else UNS
    if is_timestamp_type(dt):
        if not isinstance(doc, str):
            return REJ
        return ACC if (doc in KNOWN_TS and dt.format == TS_FORMAT) else UNS
    if is_list_type(dt):
        if not isinstance(doc, list):
            return REJ
        if dt.min_items is not None and len(doc) < dt.min_items:
            return REJ
        if dt.max_items is not None and len(doc) > dt.max_items:
            return REJ
        return combine([ref_validate(dt.data_type, x, strict) for x in doc])
    if is_map_type(dt):
        if not isinstance(doc, dict):
            return REJ
        vs = []
        for k, v in doc.items():
            vs.append(ref_validate(dt.key_data_type, k, strict))
            vs.append(ref_validate(dt.value_data_type, v, strict))
        return combine(vs)
    if is_struct_type(dt):
        if dt.has_enumerated_subtypes():
            return _struct_tree(dt, doc, strict)
        return _struct(dt, doc, strict, tagged=False)
    if is_union_type(dt):
        return _union(dt, doc, strict)
    return UNS


def _optional(f):
    return is_nullable_type(f.data_type) or f.has_default


def _struct(dt, doc, strict, tagged):
    """tagged: the object legitimately carries a '.tag' key (subtype of a tree / flattened union member)"""
    if doc is None:
        # json_serializer.rst is silent about null where a struct is expected
        return REJ if dt.all_required_fields else UNS
    if not isinstance(doc, dict):
        return REJ
    vs = []
    names = set()
    for f in dt.all_fields:
        names.add(f.name)
        if f.name in doc:
            v = doc[f.name]
            if v is None and not is_nullable_type(f.data_type):
                # "Setting name ... to null is not a valid serialization; deserializers will raise an error."
                if is_nullable_type(unalias(f.data_type)) or is_void_type(unalias(f.data_type)):
                    vs.append(UNS)
                elif is_struct_type(unalias(f.data_type)) and not unalias(f.data_type).all_required_fields:
                    vs.append(UNS)
                else:
                    vs.append(REJ)
            else:
                vs.append(ref_validate(f.data_type, v, strict))
        elif not _optional(f):
            if is_nullable_type(unalias(f.data_type)) or is_void_type(unalias(f.data_type)):
                vs.append(UNS)        # alias to a nullable: the IR calls it required, the runtime supplies null
            elif is_struct_type(unalias(f.data_type)) and not unalias(f.data_type).all_required_fields:
                vs.append(UNS)        # required field of an all-optional struct type: the runtime default-constructs it
            else:
                vs.append(REJ)
    for k in doc:
        if k in names:
            continue
        if k == '.tag' and tagged:
            continue
        if isinstance(k, str) and k.startswith('.tag'):
            vs.append(UNS)
        elif strict:
            vs.append(REJ)            # evolve_spec.rst: a strict recipient rejects struct fields it is unaware of
    return combine(vs)


def _struct_tree(root, doc, strict):
    if not isinstance(doc, dict):
        return REJ
    if '.tag' not in doc:
        return REJ
    tag = doc['.tag']
    if not isinstance(tag, str):
        return REJ
    for f in root.get_enumerated_subtypes():
        if f.name == tag:
            sub = f.data_type
            if sub.has_enumerated_subtypes():
                return UNS
            return _struct(sub, doc, strict, tagged=True)
    if strict:
        return REJ
    if root.is_catch_all():
        return _struct(root, doc, strict, tagged=True)
    return REJ


def _union(dt, doc, strict):
    fields = {f.name: f for f in dt.all_fields}
    catch_all = [f.name for f in dt.all_fields if f.catch_all]
    catch_all = catch_all[0] if catch_all else None
    if isinstance(doc, str):
        if doc in fields:
            if doc == catch_all:
                return REJ
            ft = unalias(fields[doc].data_type)
            if is_void_type(ft):
                return ACC
            if is_nullable_type(ft):
                return UNS
            return REJ
        if catch_all is not None and not strict:
            return ACC
        return REJ
    if not isinstance(doc, dict):
        return REJ
    if '.tag' not in doc:
        return REJ
    tag = doc['.tag']
    if not isinstance(tag, str):
        return REJ
    if tag not in fields:
        if catch_all is not None and not strict:
            return ACC
        return REJ
    if tag == catch_all:
        return REJ
    ft = unalias(fields[tag].data_type)
    nullable = False
    if is_nullable_type(ft):
        nullable = True
        ft = unalias(ft.data_type)
    extra = [k for k in doc if k != '.tag' and k != tag]
    if is_void_type(ft):
        if not strict:
            return ACC                         # evolve_spec.rst: the older receiver ignores the new payload
        if extra:
            return REJ
        if tag in doc:
            return ACC if doc[tag] is None else REJ
        return ACC
    if is_struct_type(ft) and not ft.has_enumerated_subtypes():
        if nullable and len(doc) == 1:
            return ACC
        return _struct(ft, doc, strict, tagged=True)
    # nested under the tag name
    vs = []
    if tag in doc:
        if doc[tag] is None and nullable:
            vs.append(UNS)        # explicit null is documented for struct fields only; null members are tag-only
        else:
            vs.append(ref_validate(ft, doc[tag], strict))
    elif nullable:
        vs.append(ACC)
    else:
        vs.append(REJ)
    if extra:
        vs.append(REJ if strict else UNS)
    return combine(vs)
