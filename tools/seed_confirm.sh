#!/bin/bash
# usage: seed_confirm.sh <seed dir> <X> <worktree>   -- confirm a seeded change: tests pass with it, demo fails with it, demo passes without
D=$1; X=$2; WT=$3
cd $WT && git checkout -q -- . && git apply $D/${X}_patch.diff || { echo "APPLY-FAILED"; exit 2; }
T=$(/venv/bin/python -m pytest -q -p no:cacheprovider -x 2>&1 | tail -1)
PYTHONPATH=$WT timeout 300 /venv/bin/python $D/${X}_demo.py > /tmp/demo_out.txt 2>&1; RC1=$?
git checkout -q -- .
PYTHONPATH=$WT timeout 300 /venv/bin/python $D/${X}_demo.py > /tmp/demo_out0.txt 2>&1; RC0=$?
echo "tests: $T | demo with change rc=$RC1 | demo pristine rc=$RC0"
