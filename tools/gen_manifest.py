#!/usr/bin/env python3
"""Regenerates /verif/MANIFEST.json from the tables below (kept in one place so it stays valid)."""
import json

TECH = 'bounded symbolic execution of the real code (CrossHair 0.0.110 + z3 5.1), solver verdict per path, concrete replay'

_FE_NOTE = ('Partial claim: a symbolic spec TEXT is out of reach of the engine (the ply master regex realises it); syntax and '
            'structure (reference resolution, inheritance legality, subtypes, patches, annotations, name clashes) are '
            'therefore covered by FINITE tables whose index the solver enumerates (a rule x site table of ~150 specs, '
            'finite-domain name / nullability / union-chain / patch-target slots, single-position text edits of the '
            'catalogue files) -- stated as enumeration, not as a proof over all specs; file order and multi-file '
            'layouts are outside. Trusted: the language-rule '
            'oracles transcribed from docs/lang_ref.rst in harness/fe_*.py (three-valued; silent cases not judged), '
            'CrossHair/z3, glue G1-G3. Every counterexample is re-rendered as spec TEXT and must end the same way '
            'through specs_to_ir before it is reported.')

CLAIMED = {
    'C01': dict(
        text='Bounded proof by symbolic execution of the real semantic stage (IRGenerator.generate_IR, stone.ir constructors '
             'and check*/set_* methods) on ASTs parsed from spec templates by the real parser, with ONE symbolic literal slot '
             'per harness: type arguments of every builtin type, field defaults for 23 field type shapes (literal and tag '
             'references), example values (scalars, floats, lists, maps, example references), route attribute values '
             'against a typed stone_cfg.Route schema, doc references composed from a finite name domain, finite-domain name '
             'clashes at inheritance depth 3: InvalidSpec is raised iff the transcribed language rule says must-reject. Plus '
             'the indentation rule on the lexer dent kernel (symbolic indentation), alias chains x nullability, union '
             'inheritance chains, patch targets, and a rule x site table (references, inheritance, subtypes, nullability / '
             'defaults, routes, annotations, examples, redefinitions, patches) decided by the real parser + IRGenerator; a '
             'catalogue of valid specs that no longer compiles is reported as a violation as well.',
        note=_FE_NOTE, ref='4 (C01/C02/C03)'),
    'C02': dict(
        text='Bounded proof by symbolic execution, literal-fidelity and ordering clauses: for every accepted symbolic literal '
             '(type arguments, defaults incl. int->float, example leaves, route attributes with schema defaults for absent '
             'ones, also on an untouched sibling route) the Api object carries exactly the declared value; Struct.all_fields '
             'is required-then-optional / parents-first for every optionality assignment of a depth-3 chain; '
             'ApiNamespace.normalize leaves types, aliases and routes sorted and complete for symbolic names/versions; doc_unwrap equals its documented contract on symbolic text <= 6/7 chars; the '
             'implicit catch-all of every open/closed union chain, nullability through alias chains, annotations and '
             'deprecation markers at every site of a template (IR vs AST), and closure / acyclicity / ordering invariants '
             'of every accepted spec of the rule table; unqualified type names resolve in the declaring namespace for two namespaces declaring the same names, in both spec orders.',
        note=_FE_NOTE + ' Closure/registration of reachable types and linearisation order are structural and outside.',
        ref='4 (C01/C02/C03)'),
    'C03': dict(
        text='Bounded proof by symbolic execution: for every value of every literal slot listed under C01, every composed doc '
             'reference, every finite-domain name choice, the semantic stage returns an Api or raises InvalidSpec -- no '
             'other exception escapes; the regex-free actions that see user text (string-literal action, doc_unwrap, route '
             'reference parser, parenthesis state actions) never raise on strings <= 4/5 chars; every single-position text '
             'edit (truncate at every character, delete / duplicate / swap / re-indent every line) of the catalogue spec '
             'files and every spec of the rule table ends in an Api or InvalidSpec with a message and an input path '
             '(finite enumeration through specs_to_ir); bug-hunting harnesses (realised doc-reference text) can refute but '
             'not discharge. 20 defects of this kind were found and repaired (known_findings.json).',
        note=_FE_NOTE + ' Message text is checked in concrete replays only (G1).', ref='4 (C01/C02/C03)'),
    'C04': dict(
        text='Bounded proof by symbolic execution: for every type of the shape catalogue, json_compat_obj_encode -> '
             'json_compat_obj_decode -> json_compat_obj_encode of the real runtime is executed on symbolic leaf values '
             '(all ints, IEEE-exact floats, strings <= 2/3 chars, lists <= 1/2 items, every tag/subtype, every subset of '
             'optional fields, strict and lenient); discharged only on "Confirmed over all paths".',
        note='Trusted: CrossHair/z3, glue G1-G3 (opaque message formatting, descriptor tracing). Structural bound: the '
             'hand-written catalogue /verif/catalogue/shapes compiled by the real compiler at each run. Outside: '
             'Bytes/Timestamp payloads from a concrete list, map keys concrete, json.dumps/loads, old_style, msgpack.',
        ref='4 (C04)'),
    'C05': dict(
        text='Bounded proof by symbolic execution: real encoder output equals a reference encoder written from '
             'docs/json_serializer.rst and driven by the stone.ir description (not by the generated tables), for every '
             'catalogue type over the same symbolic value space as C04 (catch-all tag included).',
        note='Trusted: the reference encoder refmodel/wire.py (60 lines, self-tested on the documentation examples), '
             'CrossHair/z3, glue G1-G3. Same structural bound and exclusions as C04.',
        ref='4 (C05)'),
    'C06': dict(
        text='Bounded proof by symbolic execution of the real decoder against a three-valued reference validator written '
             'from the documents: per catalogue type, (a) every document of the valid shape with symbolic leaves (all '
             'ints, strings <= 2/3 chars) and every subset of optional keys / tag / subtype, (b) every document one '
             'structural mutation away (wrong kind, dropped/unknown/null key, unknown/non-string/missing/catch-all tag, '
             'bare-string form, payload dropped/added), strict and lenient: only ValidationError escapes, must-accept is '
             'accepted, must-reject is rejected, every returned value re-encodes (is valid).',
        note='Trusted: refmodel/accept.py (reference validator; silent cases are "unspecified" and not judged), CrossHair/z3, '
             'glue G1-G3, real-number model for ints given to float fields. Large catalogue types are explored one '
             'top-level field/tag at a time in the quick tier (rest of the document a fixed valid instance). Base64 and '
             'timestamp text: concrete list + bug-hunting harnesses that can refute but not discharge.',
        ref='4 (C06)'),
    'C07': dict(
        text='Bounded proof by symbolic execution over four version pairs (A,B) generated at check time (optional/defaulted '
             'fields added at top level, in a parent and in a child; tags added to an open union and its child union, Void '
             'tags given primitive / nullable / struct types; a subtype and fields added under a catch-all struct; types '
             'renamed and aliases introduced), each reached directly and through list / map / nullable / union-member / '
             'field nesting: B-encoded symbolic values decoded leniently under A equal the A-view computed by a reference '
             'model of docs/evolve_spec.rst, strict decoding under A rejects exactly the messages containing something A '
             'does not know, A-encoded values decode under B (both modes) with new fields at their defaults.',
        note='Trusted: refmodel/evolve.py (reference old/new view), CrossHair/z3, glue G1-G3. Structural bound: the four '
             'pairs; holder structs explored one field at a time. Outside: the Void -> non-nullable '
             'direction the guide does not promise, Bytes/Timestamp payloads, json string entry points.',
        ref='4 (C07)'),
    'C08': dict(
        text='Bounded proof by symbolic execution of the validator classes with symbolic parameters AND symbolic values '
             '(all integers; all binary64 incl. NaN/inf; strings <= 4/6 chars against length bounds and a list of '
             'regexes; bytes; lists <= 3/4 items; map key bounds; a finite list of naive / aware datetimes; values of every wrong kind) against the Stone type semantics; plus the '
             'generated classes of the catalogue: setattr on every primitive-built struct field and every typed union '
             'helper with symbolic values (valid shape and one wrong-kind mutation) succeeds iff a reference predicate '
             'derived from the stone.ir type accepts, reads back equal; user-typed struct fields and user-typed union members (incl. all-optional and empty structs, None) over a finite set of instances.',
        note='Trusted: CrossHair/z3 and its regex engine, glue G1-G3. int->float conversion uses the real-number model '
             '(rounding/overflow outside). bool-as-number and NaN bounds are unspecified and not judged.',
        ref='4 (C08)'),
    'C10': dict(
        text='Bounded proof by symbolic execution: (1) every default literal the real compiler accepts for a primitive field '
             'shape (bounded ints, alias chains, floats IEEE-exact, booleans, strings with lengths and patterns) is accepted '
             'by the validator that python_types.generate_validator_constructor builds for the same type; (2) every example '
             'that the compiler computes for the holes template with one symbolic example value decodes strictly as the '
             'generated class and encodes back to the same document (implicit catch-all example excluded; union examples '
             'with falsy payloads, a subtype declared before its base); (3) every defaulted field of the catalogue classes '
             'reads back exactly the declared default, kind included (finite); (4) bug-hunting only: defaults are emitted as '
             'one line that evaluates back to the literal.',
        note='Trusted: CrossHair/z3 + regex engine, glue G1-G3; generated classes of catalogue/holes compiled at check time. '
             'Outside: tag defaults read back from generated classes (concrete fixture gate only), Bytes/Timestamp, '
             'emission of arbitrary numbers (formatting realises them).',
        ref='4 (C10)'),
    'C11': dict(
        text='Bounded proof by symbolic execution of the lexer dent logic (layout clause only): with symbolic current level, '
             'number of leading spaces (0..9/17), line tail, comment body and blank-line count, a blank / space-only / '
             'comment-only next line never produces INDENT/DEDENT nor changes the level; the number and kind of dent tokens '
             'equals the level change; a full-line comment yields no NEWLINE, a trailing comment exactly one; inside '
             'parentheses a continuation is accepted iff indented by exactly one level; at end of input exactly `level` '
             'DEDENTs are produced. Plus, as a FINITE enumeration through specs_to_ir (the solver only picks the position): '
             'every single-position layout edit (empty line, line of 1/4/8 spaces, comment line at three indentations, '
             'trailing spaces, trailing comment, deletion of a blank/comment line; ~5400 edits) of six catalogue spec files '
             'leaves the canonical API signature (vlib/apisig.py) unchanged.',
        note='Partial claim: the ordering / file-splitting / stdin clauses are structural and outside; tokenisation itself '
             '(ply master regex) is outside the symbolic part and is exercised by the text-level enumeration only. Unit '
             'harnesses on private lexer helpers resolved by name at start-up. Trusted: vlib/apisig.py (what counts as '
             'the API description a backend can observe).',
        ref='4 (C11)'),
    'C13': dict(
        text='Bounded proof by symbolic execution over the annotated catalogue (Omitted for three caller classes, one of them camelCase; three-level struct and union chains; '
             'RedactedBlot/RedactedHash with and without regex on struct fields, union tags, inherited fields, aliases used '
             'directly / nullable / in lists / as map values / nested): (a) real encoder under every subset of caller '
             'classes equals the reference encoder that drops omitted fields (a refusal to encode a hidden tag is '
             'accepted), (b) strict decoding of a document carrying an omitted field/tag raises exactly when the class is '
             'not held, (c) with redaction on/off the output equals the reference redaction (blot mask, regex groups '
             'joined by ***, digest or digest (groups)) at every annotated position.',
        note='Trusted: refmodel/wire.py (reference encoder + reference redaction from the C13 statement), glue G6 (md5 '
             'replaced by a fixed digest under the engine; replays use the real md5), CrossHair regex engine. Redaction '
             'harnesses explore one top-level field at a time, strings <= 3 over {a,b,x,y,space}.',
        ref='4 (C13)'),
    'C14': dict(
        text='Bounded proof by symbolic execution of the generated python_client methods (regenerated at check time) for '
             'the 20 catalogue routes (two specs, incl. a namespace that only defines routes, camelCase argument fields and a field-less argument struct): symbolic argument values, every optional parameter passed or omitted, required '
             'parameters positional or by keyword, symbolic request() result: exactly one request with the ROUTES object, '
             'namespace, upload body, an argument whose every field equals the passed value or the spec default in value '
             'AND kind (tag defaults incl. cross-namespace; equal-valued defaults of different literal kinds), result '
             'returned (None for Void), DeprecationWarning iff deprecated; second spec with a reserved-word namespace and '
             'only later versions deprecated; a client module that does not import next to its types is a violation. One '
             'known finding (alias-of-nullable argument field) is listed in known_findings.json.',
        note='Partial: method naming/docstrings, the _to_file helper and routes outside the catalogue are outside. '
             'Trusted: CrossHair/z3, glue G1-G3; validity of argument values is not the subject (invalid ones are skipped).',
        ref='4 (C14)'),
    'C18': dict(
        text='Bounded proof by symbolic execution, two clauses only. Containment: every path string over {., /, a} up to '
             'length 4/6 through output_to_relative_path, copy_to_path and the Swift writer with the file system replaced '
             'by recording stubs: a path that an independent segment-stack resolver places outside the root is refused by '
             'AssertionError before any makedirs/open/copy, accepted writes land inside, manifest mode touches nothing '
             'and records the normalised relative path. Verbatim emission: emit/emit_raw/indent/block/placeholders with '
             'symbolic text over { } % a space (block delimiters None / empty / symbolic, K&R and Allman) reach output_buffer_to_string byte for byte with the right indentation; '
             'generate_multiline_list with symbolic (possibly equal) items equals a reference pretty-printer; the same '
             'output requested twice in a manifest run is never written.',
        note='Partial claim: manifest-vs-real-run fidelity for the built-in backends and emit_wrapped_text are outside. Trusted: glue G4 (CPython pure-Python normpath, cross-checked against '
             'the C function in the self-test), G5 (pure-Python twin of str.format for symbolic templates), stubs for '
             'os/open/shutil; cwd fixed to /cwd, root fixed to /out/root.',
        ref='4 (C18)'),
    'C19': dict(
        text='Bounded proof by symbolic execution, expression-evaluation clause only: for a fixed list of expression '
             'skeletons (<= 3/4 atoms, and/or/parentheses, =/!=, literals of every kind) parsed by the real parser, '
             'FilterExpr*.eval on symbolic attribute values (None/bool/all ints/strings <= 3, each attribute present or '
             'absent) agrees with an independent precedence-climbing evaluator. Malformed expressions, as a FINITE enumeration '
             '(the solver only picks the edit): every single token-level edit (delete / duplicate / swap / illegal '
             'character / token replaced) of each listed expression reports errors exactly when an independent tokenizer '
             '+ parser rejects the text.',
        note='Partial claim: -w/-b/-a pruning in cli.main and by-name table consistency are '
             'outside (no symbolic value reaches them). Comparisons across kinds Python equates (True == 1) are '
             'unspecified and not judged.',
        ref='4 (C19)'),
}

NA = {
    'C09': 'observable is whether generated text imports; every value is concretised by str.format/pprint during '
           'generation, no symbolic variable reaches an assertion (DESIGN.md section 5)',
    'C12': 'nondeterminism source is CPython hash randomisation across processes; not a value the engine can make symbolic',
    'C15': 'compares two generated texts declaration by declaration; purely structural, both generators concretise',
    'C16': 'well-formedness of generated JS/TS judged by external parsers; nothing symbolic survives generation',
    'C17': 'same for Swift/Objective-C (Jinja templates), judged lexically',
    'C20': 'dependency closure is a reachability fix-point over a concrete object graph; symbolic execution degenerates '
           'to enumerating concrete runs',
}

PENDING = {
}


def main():
    checks = []
    for pid in sorted(CLAIMED):
        c = CLAIMED[pid]
        checks.append(dict(
            property_id=pid,
            quick_cmd='bin/check %s quick' % pid,
            thorough_cmd='bin/check %s thorough' % pid,
            evidence_file='/verif/evidence/%s.json' % pid,
            replay_cmd_template='bin/check --replay {path}',
            engine='crosshair',
            level_claimed=dict(category='model_checking', text=c['text'], design_ref='DESIGN.md section ' + c['ref']),
            level_note=c['note'],
            technique=TECH))
    na = [dict(property_id=k, reason=v) for k, v in sorted({**NA, **{k: v for k, v in PENDING.items() if k not in CLAIMED}}.items())]
    m = dict(
        version=1,
        setup_cmd='bin/ensure_env && bin/check --selftest',
        hooks=dict(guard='DROPBOX_STONE_VERIF', enable='no hook is needed: the machinery drives /repo unmodified '
                   '(glue lives in /verif/vlib/glue.py)',
                   baseline_off_cmd='cd /repo && /venv/bin/python -m pytest -q -p no:cacheprovider --timeout=900',
                   source_commits=[], add_only=True),
        engines=[dict(name='crosshair', path='/verif/vlib', serves_properties=sorted(CLAIMED),
                      kind_free_text='CrossHair 0.0.110 symbolic execution of the real Python modules of /repo with z3; '
                                     'one subprocess per harness instance, 16 in parallel')],
        checks=checks,
        not_applicable=na,
        notes='Exit codes: 0 held / 1 VIOLATION (replayed concretely) / 3 harness error. Inconclusive harnesses '
              '(time-outs, "Not confirmed") are reported and never raise an alarm.')
    with open('/verif/MANIFEST.json', 'w') as f:
        json.dump(m, f, indent=1)
        f.write('\n')


if __name__ == '__main__':
    main()
