#!/bin/bash
# usage: seed_run.sh <seed name e.g. C04a> <property ...>   -- apply the seeded change to /repo, run the quick checks, undo
S=$1; shift
cd /repo && git checkout -q -- . && git apply /verif/seeded/$S/patch.diff || { echo "$S APPLY-FAILED"; exit 2; }
cd /verif
for P in "$@"; do
  OUT=$(bin/check $P quick 2>&1); RC=$?
  NV=$(echo "$OUT" | grep -c "^VIOLATION")
  FIRST=$(echo "$OUT" | grep "^VIOLATION" | head -3 | sed 's/.*replay=.verif.replays.//' | tr '\n' ' ')
  echo "SEED $S check=$P exit=$RC violations=$NV $(echo "$OUT" | grep '^SUMMARY' | sed 's/.*harnesses/harnesses/') :: $FIRST"
done
git -C /repo checkout -q -- .
