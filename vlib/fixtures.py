"""Fixtures: the hand-written catalogue (/verif/catalogue) compiled with the REAL compiler of /repo at every run.

build(fixdir) writes, under fixdir:
   catgen/        python_types output for catalogue/shapes  (+ catclient.py from python_client)
   anngen/        python_types output for catalogue/annotated
   evo/<pair>_a/, evo/<pair>_b/   python_types output for each evolution pair
Nothing symbolic happens here; this is concrete use of the compiler to obtain the code under analysis.
"""
import glob
import importlib
import os
import sys

CAT = '/verif/catalogue'


def read_specs(sub):
    paths = sorted(glob.glob(os.path.join(CAT, sub, '*.stone')))
    return [(p, open(p, encoding='utf-8').read()) for p in paths]


_API_CACHE = {}


def api_for(sub):
    """the stone.ir.Api the real frontend produces for a catalogue directory"""
    if sub not in _API_CACHE:
        from stone.frontend.frontend import specs_to_ir
        _API_CACHE[sub] = specs_to_ir(read_specs(sub))
    return _API_CACHE[sub]


def _compile(api, backend, args, out):
    from stone.compiler import Compiler
    mod = importlib.import_module('stone.backends.' + backend)
    Compiler(api, mod, args, out).build()


def evolution_pairs():
    base = os.path.join(CAT, 'evolution')
    if not os.path.isdir(base):
        return []
    return sorted(d for d in os.listdir(base) if os.path.isdir(os.path.join(base, d)))


ALL_GROUPS = ('shapes', 'annotated', 'client2', 'holes', 'evolution', 'names')


def build(fixdir, groups=ALL_GROUPS):
    """compile the requested catalogue groups with the real compiler and check that the generated code imports"""
    from stone.frontend.frontend import specs_to_ir
    imports = []
    if 'shapes' in groups:
        api = specs_to_ir(read_specs('shapes'))
        _compile(api, 'python_types', ['-p', 'catgen'], os.path.join(fixdir, 'catgen'))
        api = specs_to_ir(read_specs('shapes'))
        _compile(api, 'python_client', ['-m', 'catclient', '-c', 'CatClient', '-t', 'catgen'],
                 os.path.join(fixdir, 'catgen'))
        imports += ['catgen.cat', 'catgen.cat2', 'catgen.catr', 'catgen.catclient']
    if 'annotated' in groups:
        api = specs_to_ir(read_specs('annotated'))
        _compile(api, 'python_types', ['-p', 'anngen'], os.path.join(fixdir, 'anngen'))
        imports += ['anngen.ann']
    if 'client2' in groups:
        api = specs_to_ir(read_specs('client2'))
        _compile(api, 'python_types', ['-p', 'cl2gen'], os.path.join(fixdir, 'cl2gen'))
        api = specs_to_ir(read_specs('client2'))
        _compile(api, 'python_client', ['-m', 'cl2client', '-c', 'Cl2Client', '-t', 'cl2gen'],
                 os.path.join(fixdir, 'cl2gen'))
        imports += ['cl2gen.class_', 'cl2gen.cl2client']
    if 'holes' in groups:
        api = specs_to_ir(read_specs('holes'))
        _compile(api, 'python_types', ['-p', 'exgen'], os.path.join(fixdir, 'exgen'))
        imports += ['exgen.ex']
    if 'names' in groups:
        api = specs_to_ir(read_specs('names'))
        _compile(api, 'python_types', ['-p', 'namesgen'], os.path.join(fixdir, 'namesgen'))
        imports += ['namesgen.names']
    if 'evolution' in groups:
        for pair in evolution_pairs():
            for side in ('a', 'b'):
                sub = os.path.join('evolution', pair, side)
                api = specs_to_ir(read_specs(sub))
                pkg = 'evo_%s_%s' % (pair, side)
                _compile(api, 'python_types', ['-p', pkg], os.path.join(fixdir, pkg))
                imports += [pkg + '.evo']
    # the generated packages must import (clients next to their types)
    import subprocess
    code = 'import sys; sys.path.insert(0, %r); import %s' % (fixdir, ', '.join(imports))
    p = subprocess.run([sys.executable, '-c', code], stdout=subprocess.PIPE, stderr=subprocess.STDOUT,
                       env=dict(os.environ, PYTHONPATH='/repo'))
    if p.returncode != 0:
        raise RuntimeError('generated code does not import: ' + p.stdout.decode('utf-8', 'replace')[-600:])
    return fixdir


def build_check(groups=ALL_GROUPS):
    """replay entry: the catalogue must compile and the generated packages must import"""
    import shutil
    import tempfile
    d = tempfile.mkdtemp(prefix='verif_fix_')
    try:
        build(d, groups)
        return True
    finally:
        shutil.rmtree(d, ignore_errors=True)


def module(pkg, ns):
    fixdir = os.environ.get('VERIF_FIXDIR')
    if fixdir and fixdir not in sys.path:
        sys.path.insert(0, fixdir)
    return importlib.import_module('%s.%s' % (pkg, ns))
