"""Harness-side helpers shared by every harness module (usable with and without CrossHair)."""
import os

TIER = os.environ.get('VERIF_TIER', 'quick')
TWIN = os.environ.get('VERIF_TWIN') == '1'
FIXDIR = os.environ.get('VERIF_FIXDIR', '')
ITEM = os.environ.get('VERIF_ITEM', '')
ASPECT = os.environ.get('VERIF_ASPECT', '')    # the property a multi-property harness is deciding in this run

REGISTRY = {}      # (module, function name) -> metadata


def known_skip(tag):
    """True when /verif/known_findings.json lists an OPEN finding with this skip tag (and skipping is not switched off):
    the harness then treats that specific, already recorded failure as not its business and keeps exploring the rest."""
    if os.environ.get('VERIF_NOSKIP') == '1':
        return False
    try:
        import json
        with open('/verif/known_findings.json') as f:
            data = json.load(f)
    except Exception:
        return False
    return any(k.get('status', 'open') == 'open' and k.get('skip') == tag for k in data.get('findings', []))


class Skip(Exception):
    """input lies outside the harness precondition (bound exceeded / not a valid value)"""


def tier(quick, thorough):
    return thorough if TIER == 'thorough' else quick


def ok(cond):
    """the assertion point of a harness; in twin mode always False so that reaching it is refutable"""
    if TWIN:
        return False
    return bool(cond)


def harness(props, targets, bound, items=None, budget=None, glue=(), outside=(), per_path=None,
            tiers=('quick', 'thorough'), render=None, note='', hunt=False):
    """Register a harness.  props: property ids it decides; targets: 'module:qualname' of the real
    functions it is meant to drive (call-counted by the worker); bound: human-readable bound;
    items: list (or callable returning list) of catalogue items the harness is instantiated for;
    budget: (quick_s, thorough_s) CPU budget per instance; glue: extra glue installers;
    hunt: bug-hunting harness -- its input is realised at a C boundary, so it can refute but never discharge."""
    def deco(fn):
        REGISTRY[(fn.__module__, fn.__name__)] = dict(
            fn=fn, props=list(props), targets=list(targets), bound=bound, items=items,
            budget=budget or (60, 300), glue=list(glue), outside=list(outside), per_path=per_path,
            tiers=tuple(tiers), render=render, note=note, hunt=hunt)
        return fn
    return deco


class Pool:
    """Fixed-size pools of symbolic primitives consumed in order by type-directed builders.
    Exhaustion means the value would be larger than the bound => Skip."""

    def __init__(self, ints=(), strs=(), bools=(), floats=(), js=(), str_ok=None):
        self.str_ok = str_ok         # lazily applied constraint on consumed strings (unused entries stay free)
        self.v = {'i': ints, 's': strs, 'b': bools, 'f': floats, 'j': js}
        self.n = {'i': 0, 's': 0, 'b': 0, 'f': 0, 'j': 0}

    def _take(self, k):
        n = self.n[k]
        if n >= len(self.v[k]):
            raise Skip('pool %s exhausted' % k)
        self.n[k] = n + 1
        return self.v[k][n]

    def int(self):
        return self._take('i')

    def str(self):
        x = self._take('s')
        if self.str_ok is not None and not self.str_ok(x):
            raise Skip('string outside the bound')
        return x

    def bool(self):
        return self._take('b')

    def float(self):
        return self._take('f')

    def j(self):
        """an arbitrary J0 value (None | bool | int | str), typed lazily from the primitive pools"""
        k = self.choice(4)
        if k == 0:
            return None
        if k == 1:
            return self.bool()
        if k == 2:
            return self.int()
        return self.str()

    def jn(self):
        """an arbitrary non-string J0 value (None | bool | int)"""
        k = self.choice(3)
        if k == 0:
            return None
        if k == 1:
            return self.bool()
        return self.int()

    def choice(self, n):
        """an index in range(n) decided by a chain of symbolic bools (no wasted paths)"""
        for k in range(n - 1):
            if self.bool():
                return k
        return n - 1
