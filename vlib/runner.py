"""Entry point behind bin/check.

  python -m vlib.runner <PROPERTY> <quick|thorough> [--only substr] [--jobs N] [--keep]
  python -m vlib.runner --replay <replay.json>
  python -m vlib.runner --selftest
"""
import concurrent.futures
import importlib
import json
import os
import shutil
import subprocess
import sys
import tempfile
import time

ROOT = '/verif'
PY = os.path.join(ROOT, '.venv/bin/python')
EXIT_HARNESS_ERROR = 3

from vlib import plan  # noqa: E402


def _env(extra):
    env = dict(os.environ)
    env['PYTHONPATH'] = '/verif:/repo'
    env['PYTHONDONTWRITEBYTECODE'] = '1'
    env['PYTHONHASHSEED'] = '0'
    env.update(extra)
    return env


def run_worker(job, workdir):
    """job: dict(module, function, item, twin, budget, per_path, tier, fixdir, seed)"""
    out = os.path.join(workdir, 'w_%s_%s_%s_%s.json' % (
        job['module'].split('.')[-1], job['function'], abs(hash(job['item'])) % 10**8, 't' if job['twin'] else 'm'))
    env = _env({'VERIF_TIER': job['tier'], 'VERIF_TWIN': '1' if job['twin'] else '0',
                'VERIF_FIXDIR': job['fixdir'] or '', 'VERIF_ITEM': job['item'] or '',
                'VERIF_SEED': str(job['seed']), 'VERIF_ASPECT': job['prop']})
    budget = job['budget'] if not job['twin'] else min(job['budget'], 120)
    cmd = [PY, '-m', 'vlib.worker', job['module'], job['function'], str(budget), str(job['per_path']), out]
    t0 = time.time()
    try:
        p = subprocess.run(cmd, env=env, cwd=ROOT, stdout=subprocess.PIPE, stderr=subprocess.STDOUT,
                           timeout=budget * 2 + 120)
        tail = p.stdout.decode('utf-8', 'replace')[-2000:]
    except subprocess.TimeoutExpired:
        tail = 'worker wall-clock timeout'
    if os.path.exists(out):
        with open(out) as f:
            r = json.load(f)
    else:
        r = dict(module=job['module'], function=job['function'], item=job['item'], twin=job['twin'],
                 verdict='error', messages=[tail], cex=None, paths=0, nontrivial_paths=0, z3_checks=0,
                 z3_seconds=0.0, targets={}, glue=[], cpu_s=0.0)
    r['wall_s'] = round(time.time() - t0, 2)
    r['job'] = {k: job[k] for k in ('module', 'function', 'item', 'twin', 'budget', 'tier')}
    return r


def replay_concrete(rep, fixdir, noskip=False):
    """run the harness function on concrete arguments in a plain interpreter (no CrossHair, no glue).
    returns (reproduced: bool, detail: str)"""
    env = _env({'VERIF_TIER': rep.get('tier', 'quick'), 'VERIF_TWIN': '0', 'VERIF_FIXDIR': fixdir or '',
                'VERIF_ITEM': rep.get('item') or '', 'VERIF_ASPECT': rep.get('property') or '',
                'VERIF_NOSKIP': '1' if noskip else '0'})
    p = subprocess.run([PY, '-m', 'vlib.replay', '--inline', json.dumps(rep)], env=env, cwd=ROOT,
                       stdout=subprocess.PIPE, stderr=subprocess.STDOUT, timeout=600)
    out = p.stdout.decode('utf-8', 'replace')
    return p.returncode == 1, out.strip()[-3000:], p.returncode


def load_known():
    path = os.path.join(ROOT, 'known_findings.json')
    if not os.path.exists(path):
        return []
    with open(path) as f:
        return json.load(f).get('findings', [])


def main(argv):
    if argv and argv[0] == '--replay':
        from vlib import replay
        return replay.main(argv[1:])
    if argv and argv[0] == '--selftest':
        from vlib import selftest
        return selftest.main(argv[1:])
    if len(argv) < 2:
        print(__doc__)
        return 2
    prop, tier = argv[0], argv[1]
    only = None
    jobs_n = int(os.environ.get('VERIF_JOBS', '16'))
    keep = False
    rest = argv[2:]
    while rest:
        a = rest.pop(0)
        if a == '--only':
            only = rest.pop(0)
        elif a == '--jobs':
            jobs_n = int(rest.pop(0))
        elif a == '--keep':
            keep = True
    seed = int(os.environ.get('VERIF_SEED', '0') or 0)
    t_start = time.time()
    os.environ['VERIF_TIER'] = tier
    os.environ['VERIF_ASPECT'] = prop
    if prop not in plan.PLAN:
        print('HARNESS-ERROR: property %s is not claimed (see MANIFEST.json not_applicable)' % prop)
        return EXIT_HARNESS_ERROR
    modules = plan.PLAN[prop]

    workdir = tempfile.mkdtemp(prefix='verif_%s_' % prop)
    fixdir = None
    try:
        needs_fix = [m for m in modules if plan.NEEDS_FIXTURES.get(m)]
        if needs_fix:
            fixdir = os.path.join(workdir, 'fix')
            os.makedirs(fixdir)
            from vlib import fixtures
            try:
                groups = sorted({g for m in needs_fix for g in plan.NEEDS_FIXTURES[m]})
                fixtures.build(fixdir, groups)
            except Exception as e:  # fixtures cannot be built from /repo
                import traceback
                traceback.print_exc()
                if prop in plan.FIXTURE_FAILURE_IS_VIOLATION:
                    # the catalogue consists of valid specs: a compiler / backend that refuses or crashes on them
                    # violates this property itself (C01: a valid spec is never refused; C03: no stray exception;
                    # C14: the client imports next to the types).  Replay = rebuild the fixtures.
                    os.makedirs(os.path.join(ROOT, 'replays', prop), exist_ok=True)
                    rpath = os.path.join(ROOT, 'replays', prop, 'fixtures.json')
                    with open(rpath, 'w') as f:
                        json.dump(dict(property=prop, module='vlib.fixtures', function='build_check', item='', tier=tier,
                                       args={'groups': repr(tuple(groups))}, observed=repr(e)[:1500]), f, indent=1)
                    print('VIOLATED       the catalogue of valid specs cannot be compiled / imported: %r' % (e,))
                    print('VIOLATION property=%s replay=%s' % (prop, rpath))
                    return 1
                print('HARNESS-ERROR: fixtures cannot be built from /repo: %r' % (e,))
                return EXIT_HARNESS_ERROR
            os.environ['VERIF_FIXDIR'] = fixdir
            sys.path.insert(0, fixdir)

        from vlib import hx
        importlib.reload(hx)
        jobs = []
        metas = {}
        for m in modules:
            importlib.import_module(m)
        for (m, fname), meta in sorted(hx.REGISTRY.items()):
            if m not in modules or prop not in meta['props'] or tier not in meta['tiers']:
                continue
            items = meta['items']
            if callable(items):
                items = items()
            if items is None:
                items = ['']
            for it in items:
                key = '%s.%s[%s]' % (m.split('.')[-1], fname, it)
                if only and only not in key:
                    continue
                metas[key] = meta
                budget = meta['budget'][0 if tier == 'quick' else 1]
                pp = meta['per_path'] or max(10.0, budget / 4.0)
                for twin in (False, True):
                    jobs.append(dict(key=key, module=m, function=fname, item=it, twin=twin, budget=budget,
                                     per_path=pp, tier=tier, fixdir=fixdir, seed=seed, prop=prop))
        if not jobs:
            print('HARNESS-ERROR: no harness registered for %s/%s' % (prop, tier))
            return EXIT_HARNESS_ERROR

        # longest budgets first
        jobs.sort(key=lambda j: (-j['budget'], j['key'], j['twin']))      # a twin runs right after its harness
        results = {}
        # wall-clock cap of a whole check (thorough tier: 25 min unless VERIF_MAX_WALL says otherwise): instances that
        # have not STARTED by then are reported as not run (inconclusive), never as discharged
        max_wall = float(os.environ.get('VERIF_MAX_WALL', '1500' if tier == 'thorough' else '0') or 0)

        def run_capped(j):
            if max_wall and time.time() - t_start > max_wall:
                return dict(module=j['module'], function=j['function'], item=j['item'], twin=j['twin'],
                            verdict='not_run', messages=['not started: the check reached its wall-clock cap of %ds' % max_wall],
                            cex=None, paths=0, nontrivial_paths=0, z3_checks=0, z3_seconds=0.0, targets={}, glue=[],
                            cpu_s=0.0, wall_s=0.0,
                            job={k: j[k] for k in ('module', 'function', 'item', 'twin', 'budget', 'tier')})
            return run_worker(j, workdir)
        with concurrent.futures.ThreadPoolExecutor(max_workers=jobs_n) as ex:
            futs = {ex.submit(run_capped, j): j for j in jobs}
            for fut in concurrent.futures.as_completed(futs):
                j = futs[fut]
                results[(j['key'], j['twin'])] = fut.result()

        known = [k for k in load_known() if k.get('property') == prop and k.get('status', 'open') == 'open']
        violations, inconclusive, errors, discharged, hunted = [], [], [], [], []
        harness_rows = []
        samples = []
        tot = dict(paths=0, nontrivial=0, z3=0, z3s=0.0, cpu=0.0)
        shutil.rmtree(os.path.join(ROOT, 'replays', prop), ignore_errors=True)
        os.makedirs(os.path.join(ROOT, 'replays', prop), exist_ok=True)
        for key in sorted(metas):
            meta = metas[key]
            r = results[(key, False)]
            tw = results[(key, True)]
            tot['paths'] += r.get('paths', 0)
            tot['nontrivial'] += r.get('nontrivial_paths', 0)
            tot['z3'] += r.get('z3_checks', 0) + tw.get('z3_checks', 0)
            tot['z3s'] += r.get('z3_seconds', 0.0) + tw.get('z3_seconds', 0.0)
            tot['cpu'] += r.get('cpu_s', 0.0) + tw.get('cpu_s', 0.0)
            status = None
            detail = ''
            if r['verdict'] in ('error', 'missing_target'):
                status = 'error'
                detail = str(r['messages'])[-1500:]
            elif r['verdict'] == 'refuted':
                rep = dict(property=prop, module=r['module'], function=r['function'], item=r['job']['item'],
                           tier=tier, args=r['cex'], message=(r['messages'][0]['message'] if r['messages'] else ''))
                if not r['cex'] or '__error__' in r['cex']:
                    status, detail = 'error', 'counterexample arguments could not be captured: %s' % rep['message']
                else:
                    ok, out, rc = replay_concrete(rep, fixdir)
                    if ok:
                        status = 'violated'
                        rpath = os.path.join(ROOT, 'replays', prop, '%s.json' % key.replace('/', '_').replace(' ', '_'))
                        rep['observed'] = out[-1500:]
                        with open(rpath, 'w') as f:
                            json.dump(rep, f, indent=1, sort_keys=True)
                        detail = rpath
                    elif rc == 4:
                        status = 'inconclusive'
                        detail = 'counterexample is not expressible through the public API (precondition to be tightened): %s' % out[-300:]
                    else:
                        status = 'error'
                        detail = ('solver counterexample did not reproduce concretely (glue/model imprecision): '
                                  '%s args=%s replay-output=%s' % (rep['message'][:300], r['cex'], out[-500:]))
            elif r['verdict'] == 'confirmed' and not meta.get('hunt'):
                # vacuity guards: twin must be refuted, every declared target entered
                unentered = [t for t, n in r.get('targets', {}).items() if n == 0]
                if tw['verdict'] != 'refuted':
                    status, detail = 'vacuous', 'reachability twin verdict=%s' % tw['verdict']
                elif unentered:
                    status, detail = 'vacuous', 'targets never entered: %s' % unentered
                else:
                    status = 'discharged'
            elif meta.get('hunt'):
                status, detail = 'hunted', 'bug-hunting only (input realised at a C boundary): %s paths, no counterexample' % r.get('paths')
            elif r['verdict'] == 'not_run':
                status, detail = 'inconclusive', 'NOT RUN: the check reached its wall-clock cap before this instance started'
            else:
                status, detail = 'inconclusive', 'CrossHair verdict=%s after %s paths / %.0fs cpu' % (
                    r['verdict'], r.get('paths'), r.get('cpu_s', 0))
            if tw.get('cex') and len(samples) < 12 and '__error__' not in tw['cex']:
                samples.append({'harness': key, 'input_reaching_assertion': tw['cex']})
            row = dict(harness=key, status=status, verdict=r['verdict'], twin=tw['verdict'], paths=r.get('paths', 0),
                       nontrivial_paths=r.get('nontrivial_paths', 0),
                       z3_checks=r.get('z3_checks', 0), z3_seconds=r.get('z3_seconds', 0.0),
                       cpu_s=r.get('cpu_s', 0.0), wall_s=r.get('wall_s', 0.0), targets=r.get('targets', {}),
                       bound=meta['bound'], outside=meta['outside'], detail=detail)
            harness_rows.append(row)
            {'discharged': discharged, 'violated': violations, 'error': errors, 'hunted': hunted}.get(status, inconclusive).append(row)

        # known findings: replay each open witness; listed + reproducing => KNOWN-FINDING line
        known_lines = []
        for k in known:
            ok, out, rc = replay_concrete(k['replay'], fixdir, noskip=True)
            if ok:
                known_lines.append('KNOWN-FINDING: property=%s %s' % (prop, k['what']))
            else:
                print('NOTE: listed finding no longer reproduces: %s' % k['what'])
        # a violated harness is "known" only if its witness signature is a listed one
        new_violations = []
        for row in violations:
            with open(row['detail']) as f:
                rep = json.load(f)
            sig = plan.signature(rep)
            if any(plan.signature_matches(k, rep, sig) for k in known):
                row['status'] = 'known-finding'
            else:
                new_violations.append(row)

        for line in known_lines:
            print(line)
        for row in harness_rows:
            print('%-14s %-60s paths=%-5d z3=%-6d cpu=%6.1fs %s' % (
                row['status'].upper(), row['harness'], row['paths'], row['z3_checks'], row['cpu_s'],
                row['detail'][:200] if row['status'] not in ('discharged',) else ''))
        for row in new_violations:
            print('VIOLATION property=%s replay=%s' % (prop, row['detail']))

        wall = time.time() - t_start
        glue_used = sorted({g for (k, t), r in results.items() for g in r.get('glue', [])})
        evidence = dict(
            property_id=prop, tier=tier, seed=seed, level='model_checking',
            coverage=dict(
                evaluations=tot['paths'],
                distinct_nontrivial=tot['nontrivial'],
                rule='evaluations = execution paths of harness+real code enumerated by CrossHair (each path is a distinct '
                     'conjunction of branch decisions, decided feasible by z3); non-trivial = paths on which at least one '
                     'declared target function of /repo was entered (counted by wrappers in the worker)',
                samples=samples or [{'note': 'no twin counterexample captured'}],
                exhaustive=bool(discharged) and not inconclusive and not errors,
                harnesses=len(harness_rows), discharged=len(discharged), inconclusive=len(inconclusive),
                bug_hunting_only=len(hunted),
                vacuous_or_error=len(errors), violated=len(violations),
                solver_queries=tot['z3'], solver_seconds=round(tot['z3s'], 2), cpu_seconds=round(tot['cpu'], 1),
                functions_encoded=sorted({t for row in harness_rows for t in row['targets']}),
                per_harness=harness_rows,
                explanation='bounded symbolic execution of the real code (CrossHair 0.0.110 + z3): a harness is '
                            'discharged only on "Confirmed over all paths" within its stated bound, with a refuted '
                            'reachability twin and all targets entered; anything else is inconclusive'),
            assumptions=glue_used + ['bounds: see coverage.per_harness[].bound / outside',
                                     'catalogue of type shapes / templates is the structural bound (DESIGN.md 3.3)'],
            wall_s=round(wall, 2), violations=len(new_violations))
        os.makedirs(os.path.join(ROOT, 'evidence'), exist_ok=True)
        # a run restricted with --only is a development aid: it must not replace the evidence of a full run
        evpath = (os.path.join(ROOT, 'evidence', '%s.json' % prop) if not only
                  else os.path.join(tempfile.gettempdir(), 'evidence_partial_%s.json' % prop))
        with open(evpath, 'w') as f:
            json.dump(evidence, f, indent=1, sort_keys=True)
        print('SUMMARY property=%s tier=%s harnesses=%d discharged=%d inconclusive=%d errors=%d violations=%d '
              'known=%d paths=%d z3_queries=%d solver_s=%.1f wall=%.0fs' % (
                  prop, tier, len(harness_rows), len(discharged), len(inconclusive), len(errors),
                  len(new_violations), len(violations) - len(new_violations), tot['paths'], tot['z3'], tot['z3s'], wall))
        if new_violations:
            return 1
        if errors:
            for row in errors:
                print('HARNESS-ERROR %s: %s' % (row['harness'], row['detail'][:600]))
            return EXIT_HARNESS_ERROR
        return 0
    finally:
        if not keep:
            shutil.rmtree(workdir, ignore_errors=True)
        else:
            print('kept workdir', workdir)


if __name__ == '__main__':
    sys.exit(main(sys.argv[1:]))
