"""Type-directed generator of JSON documents with symbolic leaves and a bounded number of structural
mutations, driven by stone.ir.  The documents are the *inputs* of the C06/C07 harnesses; their verdict comes
from refmodel.accept, never from this generator.

At every position the generator emits the valid shape for the declared type with symbolic leaf values
(unconstrained ints / strings: they may violate bounds), and -- while the mutation budget lasts -- may instead
  * put an arbitrary J0 value (None | bool | int | str) or an empty list / empty object there (wrong kind),
  * drop a required key, rename a required key to an unknown one, add an unknown key, send explicit null for an
    optional key,
  * use an unknown tag, a non-string tag, the catch-all tag, drop '.tag', drop or duplicate the payload key,
  * use the bare-string form of a union.
"""
from stone.ir import (
    is_alias, is_boolean_type, is_bytes_type, is_float_type, is_integer_type, is_list_type, is_map_type,
    is_nullable_type, is_string_type, is_struct_type, is_timestamp_type, is_union_type, is_void_type,
)

from vlib.hx import Skip

B64_CHOICES = ('', 'AP8=', 'YWJj', 'AQEB' * 20)
TS_CHOICES = ('2015-05-12T15:50:38Z', '1999-12-31T23:59:59Z')
MAP_KEYS = ('k', 'kk')
UNKNOWN_KEY = 'zz'
UNKNOWN_TAG = 'zz_unknown'
STRING_SAMPLES = {'[a-z]+': 'a', '\\bab\\b': 'ab', '[A-Z]:\\\\[a-z]+': 'C:\\a', '\\d{2}': '12', 'a|bc*': 'a'}


def unalias(dt):
    while is_alias(dt):
        dt = dt.data_type
    return dt


def concrete_leaf(dt, raw=False):
    """a fixed valid value for a primitive type (used when leaves are not the subject)"""
    if is_integer_type(dt):
        lo = dt.minimum if dt.min_value is None else dt.min_value
        hi = dt.maximum if dt.max_value is None else dt.max_value
        return lo if lo > 0 else (hi if hi < 0 else 0)
    if is_float_type(dt):
        lo, hi = dt.min_value, dt.max_value
        return lo if (lo is not None and lo > 0) else (hi if (hi is not None and hi < 0) else 0)
    if is_boolean_type(dt):
        return True
    if is_string_type(dt):
        if dt.pattern:
            return STRING_SAMPLES[dt.pattern]
        return 'a' * (dt.min_length or 0)
    if is_bytes_type(dt):
        return b'\x00\xff' if raw else B64_CHOICES[1]
    if is_timestamp_type(dt):
        return __import__('datetime').datetime(2015, 5, 12, 15, 50, 38) if raw else TS_CHOICES[0]
    return NotImplemented



class ConstPool:
    """every choice is the fixed one: optional keys present, values non-null, last tag, no mutation"""

    def bool(self):
        return False

    def choice(self, n):
        return n - 1

    def int(self):
        raise Skip('const pool')

    str = float = j = jn = int


class DocGen:
    def __init__(self, pool, mutations=1, max_list=1, max_depth=6, floats=False, symbolic_leaves=True, sym_level=9,
                 focus=None):
        self.p = pool
        self.focus = focus                   # index of the one top-level field / tag / subtype that is explored
        self.sym_all = symbolic_leaves
        self.sym_level = sym_level           # leaves are symbolic only within this many enclosing user types
        self.level = 0
        self.left = mutations
        self.max_list = max_list
        self.max_depth = max_depth
        self.floats = floats
        self.applied = []

    @property
    def sym(self):
        return self.sym_all and self.level <= self.sym_level

    def mutate(self, what):
        if self.left > 0 and self.p.bool():
            self.left -= 1
            self.applied.append(what)
            return True
        return False

    def wrong_kind(self, dt):
        k = self.p.choice(3)
        if k == 0:
            if is_bytes_type(dt) or is_timestamp_type(dt):
                return self.p.jn()       # text reaches base64 / strptime (C code): concrete strings only
            return self.p.j()
        if k == 1:
            return []
        return {}

    def gen(self, dt, depth=0):
        p = self.p
        if depth > self.max_depth:
            raise Skip('depth')
        dt = unalias(dt)
        if self.mutate('wrong-kind'):
            return self.wrong_kind(dt)
        if is_nullable_type(dt):
            if p.bool():
                return None
            return self.gen(dt.data_type, depth)
        if is_void_type(dt):
            return None
        if not self.sym:
            c = self.concrete_leaf(dt)
            if c is not NotImplemented:
                return c
        if is_integer_type(dt):
            return p.int()
        if is_float_type(dt):
            if self.floats:
                return p.float()
            return p.int()
        if is_boolean_type(dt):
            return p.bool()
        if is_string_type(dt):
            return p.str()
        if is_bytes_type(dt):
            return B64_CHOICES[p.choice(len(B64_CHOICES))]
        if is_timestamp_type(dt):
            return TS_CHOICES[p.choice(len(TS_CHOICES))]
        if is_list_type(dt):
            if not self.sym:
                n = min(max(dt.min_items or 0, 1), dt.max_items or 1)
            else:
                n = p.choice(self.max_list + 1)
            return [self.gen(dt.data_type, depth + 1) for _ in range(n)]
        if is_map_type(dt):
            out = {}
            for k in MAP_KEYS:
                if (k == 'k') if not self.sym else p.bool():
                    out[k] = self.gen(dt.value_data_type, depth + 1)
            return out
        if is_struct_type(dt):
            if dt.has_enumerated_subtypes():
                return self.gen_tree(dt, depth, top=(depth == 0))
            return self.gen_struct(dt, depth, top=(depth == 0))
        if is_union_type(dt):
            return self.gen_union(dt, depth, top=(depth == 0))
        raise Skip('unsupported type')

    def concrete_leaf(self, dt):
        return concrete_leaf(dt)

    def gen_struct(self, dt, depth, out=None, top=False):
        p = self.p
        out = {} if out is None else out
        focus = self.focus if top else None
        self.level += 1
        for idx, f in enumerate(dt.all_fields):
            if focus is not None and idx != focus:
                saved = (self.p, self.left, self.sym_all)
                self.p, self.left, self.sym_all = ConstPool(), 0, False
                try:
                    ft = f.data_type
                    if is_nullable_type(ft):
                        ft = ft.data_type
                    out[f.name] = self.gen(ft, depth + 1)
                finally:
                    self.p, self.left, self.sym_all = saved
                continue
            optional = is_nullable_type(f.data_type) or f.has_default
            if optional:
                if p.bool():
                    continue                      # absent
                if self.mutate('explicit-null'):
                    out[f.name] = None
                    continue
            elif self.mutate('drop-required'):
                continue
            elif self.mutate('rename-required'):
                ft = f.data_type
                out[UNKNOWN_KEY] = self.gen(ft, depth + 1)      # the value travels under an unknown key
                continue
            ft = f.data_type
            if is_nullable_type(ft):
                ft = ft.data_type               # presence/null decided above
            out[f.name] = self.gen(ft, depth + 1)
        if self.mutate('unknown-key'):
            out[UNKNOWN_KEY] = p.j()
        self.level -= 1
        return out

    def gen_tree(self, root, depth, top=False):
        p = self.p
        leaves = list(root.get_enumerated_subtypes())
        if top and self.focus is not None:
            k = self.focus
        else:
            k = p.choice(len(leaves) + (1 if self.left > 0 else 0))
        if k == len(leaves):
            # no / bad / unknown tag on the root's own fields
            out = {}
            m = p.choice(3)
            if m == 0 and self.mutate('unknown-subtype'):
                out['.tag'] = UNKNOWN_TAG
            elif m == 1 and self.mutate('non-string-tag'):
                out['.tag'] = p.jn()
            elif self.mutate('missing-tag'):
                pass
            else:
                raise Skip('no mutation budget for a tag mutation')
            return self.gen_struct(root, depth, out)
        f = leaves[k]
        if f.data_type.has_enumerated_subtypes():
            raise Skip('nested tree')
        out = {'.tag': f.name}
        return self.gen_struct(f.data_type, depth, out)

    def gen_union(self, dt, depth, top=False):
        p = self.p
        fields = list(dt.all_fields)
        if top and self.focus is not None:
            k = self.focus
        else:
            k = p.choice(len(fields) + (1 if self.left > 0 else 0))
        if k == len(fields):
            m = p.choice(4)
            if m == 0 and self.mutate('unknown-tag'):
                return {'.tag': UNKNOWN_TAG}
            if m == 1 and self.mutate('unknown-tag-string'):
                return UNKNOWN_TAG
            if m == 2 and self.mutate('non-string-tag'):
                return {'.tag': p.jn()}
            if self.mutate('missing-tag'):
                return {UNKNOWN_KEY: p.j()}
            raise Skip('no mutation budget for a tag mutation')
        f = fields[k]
        tag = f.name
        ft = unalias(f.data_type)
        if self.mutate('bare-string'):
            return tag
        self.level += 1
        try:
            return self._union_member(tag, ft, depth)
        finally:
            self.level -= 1

    def _union_member(self, tag, ft, depth):
        p = self.p
        nullable = False
        if is_nullable_type(ft):
            nullable = True
            ft = unalias(ft.data_type)
        out = {'.tag': tag}
        if is_void_type(ft):
            m = p.choice(3)
            if m == 1:
                out[tag] = None
            elif m == 2 and self.mutate('void-payload'):
                out[tag] = p.j()
        elif is_struct_type(ft) and not ft.has_enumerated_subtypes():
            if nullable and p.bool():
                pass                             # tag-only: null member
            else:
                self.gen_struct(ft, depth + 1, out)
                return out
        else:
            if nullable and p.bool():
                if p.bool():
                    out[tag] = None              # explicit null
            elif self.mutate('drop-payload'):
                pass
            else:
                out[tag] = self.gen(ft, depth + 1)
        if self.mutate('unknown-key'):
            out[UNKNOWN_KEY] = p.j()
        return out
