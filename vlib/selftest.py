"""Self-validation of the machinery (seconds): engine sanity, glue twins, reference oracles on the repo's own vectors."""
import itertools
import json
import os
import posixpath
import subprocess
import sys
import tempfile

ROOT = '/verif'
PY = os.path.join(ROOT, '.venv/bin/python')


def _worker(fn, twin=False):
    out = tempfile.mktemp(suffix='.json')
    env = dict(os.environ, PYTHONPATH='/verif:/repo', VERIF_TWIN='1' if twin else '0', VERIF_TIER='quick')
    subprocess.run([PY, '-m', 'vlib.worker', 'harness.selftest_toy', fn, '30', '10', out], env=env, cwd=ROOT,
                   stdout=subprocess.DEVNULL, stderr=subprocess.DEVNULL, timeout=120)
    with open(out) as f:
        r = json.load(f)
    os.unlink(out)
    return r


def main(argv):
    fails = []
    # (i) engine sanity through the same worker path as the checks
    r = _worker('toy_right')
    if r['verdict'] != 'confirmed':
        fails.append('engine: right toy not confirmed: %s' % r['verdict'])
    r = _worker('toy_wrong')
    if r['verdict'] != 'refuted' or not r['cex']:
        fails.append('engine: wrong toy not refuted: %s' % r['verdict'])
    r = _worker('toy_right', twin=True)
    if r['verdict'] != 'refuted':
        fails.append('engine: reachability twin not refuted: %s' % r['verdict'])
    # (ii) glue twin G4 against the C implementation on all strings over {., /, a} up to length 6
    c_norm = posixpath.normpath
    sys.path.insert(0, ROOT)
    from vlib import glue
    n = 0
    for k in range(0, 7):
        for t in itertools.product('./a', repeat=k):
            s = ''.join(t)
            n += 1
            if glue._py_normpath(s) != c_norm(s):
                fails.append('G4 twin differs on %r' % s)
                break
    # (iii) reference oracles on the documentation's own examples
    from refmodel import selfcheck
    fails.extend(selfcheck.run())
    if fails:
        for f in fails:
            print('SELFTEST-FAIL', f)
        return 3
    print('selftest ok (engine sanity, G4 twin on %d strings, reference oracles)' % n)
    return 0
