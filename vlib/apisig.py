"""Canonical signature of a stone.ir.Api: everything a backend can observe, nothing positional (no line numbers,
no AST nodes).  Two specs that "mean the same" (C11) have equal signatures."""
from stone.ir import (
    Alias, List, Map, Nullable, Struct, TagRef, Timestamp, Union, UserDefined, String,
)


def type_sig(dt):
    if isinstance(dt, Nullable):
        return ('nullable', type_sig(dt.data_type))
    if isinstance(dt, List):
        return ('list', type_sig(dt.data_type), dt.min_items, dt.max_items)
    if isinstance(dt, Map):
        return ('map', type_sig(dt.key_data_type), type_sig(dt.value_data_type))
    if isinstance(dt, Alias):
        return ('alias', dt.namespace.name, dt.name)
    if isinstance(dt, UserDefined):
        return ('user', dt.namespace.name, dt.name)
    if isinstance(dt, String):
        return ('String', dt.min_length, dt.max_length, dt.pattern)
    if isinstance(dt, Timestamp):
        return ('Timestamp', dt.format)
    if hasattr(dt, 'min_value'):
        return (dt.name, _num(dt.min_value), _num(dt.max_value))
    return (dt.name,)


def _num(v):
    return None if v is None else (type(v).__name__, v)


def _value(v):
    if isinstance(v, TagRef):
        return ('tagref', type_sig(v.union_data_type), v.tag_name)
    if isinstance(v, dict):
        return ('dict', tuple((k, _value(x)) for k, x in v.items()))
    if isinstance(v, (list, tuple)):
        return ('list', tuple(_value(x) for x in v))
    return (type(v).__name__, v)


def _annotation(a):
    if a is None:
        return None
    out = [type(a).__name__, getattr(a.namespace, 'name', None), a.name]
    for attr in ('omitted_caller', 'regex', 'annotation_type_name', 'annotation_type_ns'):
        if hasattr(a, attr):
            out.append((attr, getattr(a, attr)))
    if hasattr(a, 'args'):
        out.append(('args', _value(list(a.args)), _value(dict(a.kwargs))))
    return tuple(out)


def _field(f):
    out = [f.name, type_sig(f.data_type), f.doc, f.raw_doc, bool(f.deprecated), bool(f.preview), f.omitted_caller,
           _annotation(f.redactor), tuple(_annotation(a) for a in f.custom_annotations)]
    if hasattr(f, 'has_default'):
        out.append(('default', f.has_default, _value(f.default) if f.has_default else None))
    if hasattr(f, 'catch_all'):
        out.append(('catch_all', bool(f.catch_all)))
    return tuple(out)


def _examples(dt):
    try:
        exs = dt.get_examples()
    except Exception as e:          # pragma: no cover
        return ('error', type(e).__name__)
    return tuple((label, ex.text, _value(ex.value)) for label, ex in exs.items())


def _data_type(dt):
    out = ['struct' if isinstance(dt, Struct) else 'union', dt.name, dt.doc, dt.raw_doc,
           type_sig(dt.parent_type) if dt.parent_type else None, tuple(_field(f) for f in dt.fields), _examples(dt)]
    if isinstance(dt, Struct):
        if dt.has_enumerated_subtypes():
            out.append(('subtypes', dt.is_catch_all(), tuple((f.name, type_sig(f.data_type))
                                                             for f in dt.get_enumerated_subtypes())))
        out.append(('children', tuple(sorted(s.name for s in dt.subtypes))))
    if isinstance(dt, Union):
        out.append(('closed', dt.closed))
    return tuple(out)


def _route(r):
    dep = r.deprecated
    return (r.name, r.version, (dep.by.name, dep.by.version) if dep is not None and dep.by is not None else bool(dep),
            r.doc, r.raw_doc, type_sig(r.arg_data_type), type_sig(r.result_data_type), type_sig(r.error_data_type),
            tuple(sorted((k, _value(v)) for k, v in (r.attrs or {}).items())))


def _namespace(ns):
    return (
        ns.name, ns.doc,
        tuple(sorted(n.name for n in ns.get_imported_namespaces(consider_annotations=True,
                                                                 consider_annotation_types=True))),
        tuple((a.name, type_sig(a.data_type), a.doc, _annotation(a.redactor),
               tuple(_annotation(x) for x in a.custom_annotations)) for a in ns.aliases),
        tuple(_data_type(dt) for dt in ns.data_types),
        tuple(_route(r) for r in ns.routes),
        tuple(_annotation(a) for a in ns.annotations),
        tuple((t.name, t.doc, tuple((p.name, type_sig(p.data_type), p.doc, p.has_default,
                                     _value(p.default) if p.has_default else None) for p in t.params))
              for t in ns.annotation_types),
    )


def signature(api):
    return tuple(_namespace(ns) for ns in api.namespaces.values()) + (
        ('route_schema', _data_type(api.route_schema) if api.route_schema is not None else None),)


def diff(a, b, path='api'):
    """first difference between two signatures, for the replay explanation"""
    if type(a) is not type(b):
        return '%s: %r != %r' % (path, a, b)
    if isinstance(a, tuple):
        if len(a) != len(b):
            return '%s: length %d != %d' % (path, len(a), len(b))
        for k, (x, y) in enumerate(zip(a, b)):
            d = diff(x, y, '%s[%s]' % (path, x[0] if isinstance(x, tuple) and x and isinstance(x[0], str) else k))
            if d:
                return d
        return None
    return None if a == b else '%s: %r != %r' % (path, a, b)
