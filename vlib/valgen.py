"""Type-directed builder of runtime values (instances of the generated classes) from pools of symbolic
primitives, driven by the stone.ir description returned by the real frontend.

build(dt) returns (value, shadow).  The shadow is a plain description of the value used by the
reference models:
    primitives -> the Python value;  null -> None;  list -> [shadow];  map -> {key: shadow}
    struct     -> ('struct', ir_struct_of_the_instance, {field_name: shadow})      (only fields that were set)
    union      -> ('union', ir_union, tag_name, shadow_or_None)
"""
import datetime

from stone.ir import (
    is_alias, is_boolean_type, is_bytes_type, is_float_type, is_integer_type, is_list_type, is_map_type,
    is_nullable_type, is_string_type, is_struct_type, is_timestamp_type, is_union_type, is_void_type,
)
from stone.backends.python_helpers import fmt_class, fmt_var
from stone.backends.python_rsrc import stone_validators as bv

from vlib.hx import Skip

BYTES_CHOICES = (b'', b'\x00\xff', b'abc', b'\x01' * 60)       # the last one is longer than a base64 line
TS_CHOICES = (datetime.datetime(2015, 5, 12, 15, 50, 38), datetime.datetime(1999, 12, 31, 23, 59, 59))
# encode-only payloads (they do not decode back to an equal value): a timezone-aware instant, microseconds
TS_ENCODE_ONLY = (datetime.datetime(2015, 5, 12, 15, 50, 38, tzinfo=datetime.timezone.utc),
                  datetime.datetime(2015, 5, 12, 15, 50, 38, 250000))
MAP_KEYS = ('k', 'kk')


def unalias(dt):
    while is_alias(dt):
        dt = dt.data_type
    return dt


class Gen:
    def __init__(self, modules, pool, max_list=2, catch_all=False, max_depth=6, all_set=False, focus=None,
                 sym_level=9):
        """modules: {namespace name: generated module}"""
        self.modules = modules
        self.pool = pool
        self.max_list = max_list
        self.catch_all = catch_all       # may the builder pick the catch-all tag of an open union?
        self.max_depth = max_depth
        self.all_set = all_set           # set every optional field (used for concrete sample values)
        self.focus = focus               # index of the one top-level field / tag that is explored symbolically
        self.sym_level = sym_level       # leaves are symbolic only within this many enclosing user types
        self.level = 0
        self.const = False               # inside a non-focus field: fixed valid values, fixed choices
        self.ts_choices = TS_CHOICES

    def cls(self, dt):
        return getattr(self.modules[dt.namespace.name], fmt_class(dt.name))

    def build(self, dt, depth=0):
        p = self.pool
        if depth > self.max_depth:
            raise Skip('depth')
        dt = unalias(dt)
        if is_nullable_type(dt):
            if p.bool():
                return None, None
            return self.build(dt.data_type, depth)
        if is_void_type(dt):
            return None, None
        if self.const or self.level > self.sym_level:
            from vlib.docgen import concrete_leaf
            c = concrete_leaf(dt, raw=True)
            if c is not NotImplemented:
                if is_float_type(dt):
                    c = float(c)
                return c, c
        if is_integer_type(dt):
            v = p.int()
            return v, v
        if is_float_type(dt):
            v = p.float()
            return v, v
        if is_boolean_type(dt):
            v = p.bool()
            return v, v
        if is_string_type(dt):
            v = p.str()
            return v, v
        if is_bytes_type(dt):
            v = BYTES_CHOICES[p.choice(len(BYTES_CHOICES))]
            return v, v
        if is_timestamp_type(dt):
            v = self.ts_choices[p.choice(len(self.ts_choices))]
            return v, v
        if is_list_type(dt):
            if self.const:
                n = min(max(dt.min_items or 0, 1), dt.max_items or 1)
            else:
                n = p.choice(self.max_list + 1)
            vals, shs = [], []
            for _ in range(n):
                v, s = self.build(dt.data_type, depth + 1)
                vals.append(v)
                shs.append(s)
            return vals, shs
        if is_map_type(dt):
            vals, shs = {}, {}
            for k in MAP_KEYS:
                if p.bool():
                    v, s = self.build(dt.value_data_type, depth + 1)
                    vals[k] = v
                    shs[k] = s
            return vals, shs
        if is_struct_type(dt):
            return self.build_struct(dt, depth)
        if is_union_type(dt):
            return self.build_union(dt, depth)
        raise Skip('unsupported type %r' % (dt,))

    def build_struct(self, dt, depth):
        p = self.pool
        if dt.has_enumerated_subtypes():
            leaves = [f.data_type for f in dt.get_enumerated_subtypes()]
            dt = leaves[p.choice(len(leaves))]
            if dt.has_enumerated_subtypes():
                raise Skip('nested tree')
        inst = self.cls(dt)()
        fields = {}
        focus = self.focus if depth == 0 else None
        self.level += 1
        for idx, f in enumerate(dt.all_fields):
            optional = is_nullable_type(f.data_type) or f.has_default      # the IR's own rule (all_optional_fields)
            ft = f.data_type
            if is_nullable_type(ft):
                ft = ft.data_type
            if focus is not None and idx != focus:
                from vlib.docgen import ConstPool
                saved = (self.pool, self.const)
                self.pool, self.const = ConstPool(), True
                try:
                    v, s = self.build(ft, depth + 1)
                finally:
                    self.pool, self.const = saved
            else:
                if optional and not self.all_set and not p.bool():
                    continue
                v, s = self.build(ft, depth + 1)
            try:
                setattr(inst, fmt_var(f.name), v)       # Python attribute naming is not the subject here
            except bv.ValidationError:
                raise Skip('value outside the declared type')
            fields[f.name] = s
        self.level -= 1
        return inst, ('struct', dt, fields)

    def build_union(self, dt, depth):
        p = self.pool
        tags = [f for f in dt.all_fields if self.catch_all or not f.catch_all]
        if depth == 0 and self.focus is not None:
            f = tags[self.focus]
        else:
            f = tags[p.choice(len(tags))]
        self.level += 1
        try:
            v, s = self.build(f.data_type, depth + 1)
        finally:
            self.level -= 1
        try:
            inst = self.cls(dt)(fmt_var(f.name), v)
        except bv.ValidationError:
            raise Skip('value outside the declared type')
        return inst, ('union', dt, f.name, s)
