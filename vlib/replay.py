"""Concrete replay of a solver counterexample on the real code: plain interpreter, no CrossHair, no glue.

  python -m vlib.replay <replay.json>        (stand-alone: rebuilds the fixtures it needs from /repo)
  python -m vlib.replay --inline '<json>'     (used by the runner; fixtures come from VERIF_FIXDIR)

exit 1 iff the violation reproduces (the harness function raises or returns False), 0 otherwise.
"""
import importlib
import json
import os
import shutil
import sys
import tempfile
import traceback

NAN = float('nan')
INF = float('inf')


def evaluate(src):
    return eval(src, {'nan': NAN, 'inf': INF, '__builtins__': {'True': True, 'False': False, 'None': None,
                                                               'set': set, 'frozenset': frozenset, 'float': float,
                                                               'bytearray': bytearray}})


def innermost_stone_frame(tb):
    frame = None
    for fs in traceback.extract_tb(tb):
        fn = fs.filename.replace('\\', '/')
        if '/stone/' in fn and '/verif/' not in fn:
            frame = '%s:%s' % (fn[fn.index('/stone/') + 1:], fs.name)
    return frame


def run(rep):
    os.environ['VERIF_TWIN'] = '0'
    os.environ['VERIF_ITEM'] = rep.get('item') or ''
    os.environ['VERIF_TIER'] = rep.get('tier', 'quick')
    os.environ['VERIF_ASPECT'] = rep.get('property') or ''
    fixdir = os.environ.get('VERIF_FIXDIR')
    if fixdir and fixdir not in sys.path:
        sys.path.insert(0, fixdir)
    mod = importlib.import_module(rep['module'])
    fn = getattr(mod, rep['function'])
    args = {k: evaluate(v) for k, v in rep['args'].items()}
    try:
        ret = fn(**args)
    except Exception as e:
        if getattr(e, 'verif_unreachable', False):
            # the counterexample cannot be written as input of the public API: not a finding
            print(json.dumps(dict(reproduced=False, unreachable=True, why=str(e)[:300])))
            return 4
        out = dict(reproduced=True, kind='exception', exc_type=type(e).__name__, exc=str(e)[:500],
                   frame=innermost_stone_frame(e.__traceback__))
        print(json.dumps(out))
        return 1
    if ret:
        print(json.dumps(dict(reproduced=False)))
        return 0
    out = dict(reproduced=True, kind='post-false')
    if hasattr(mod, 'explain'):
        try:
            out['explain'] = mod.explain(rep['function'], args)
        except Exception as e:
            out['explain'] = 'explain failed: %r' % (e,)
    print(json.dumps(out))
    return 1


def main(argv):
    if argv[0] == '--inline':
        return run(json.loads(argv[1]))
    with open(argv[0]) as f:
        rep = json.load(f)
    from vlib import plan
    tmp = None
    try:
        if plan.NEEDS_FIXTURES.get(rep['module']) and not os.environ.get('VERIF_FIXDIR'):
            from vlib import fixtures
            tmp = tempfile.mkdtemp(prefix='verif_replay_')
            fixtures.build(tmp, plan.NEEDS_FIXTURES[rep['module']])
            os.environ['VERIF_FIXDIR'] = tmp
        rc = run(rep)
        print('REPRODUCED' if rc == 1 else 'NOT-REPRODUCED')
        return rc
    finally:
        if tmp:
            shutil.rmtree(tmp, ignore_errors=True)


if __name__ == '__main__':
    sys.exit(main(sys.argv[1:]))
