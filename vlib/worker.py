"""One CrossHair analysis of one harness function, in its own process.

usage: python -m vlib.worker <module> <function> <budget_s> <per_path_s> <out.json>
env:   VERIF_TIER, VERIF_TWIN, VERIF_FIXDIR, VERIF_ITEM, VERIF_SEED
"""
import collections
import importlib
import json
import os
import random
import sys
import time
import traceback


def _resolve(spec):
    modname, qual = spec.split(':')
    mod = importlib.import_module(modname)
    parts = qual.split('.')
    owner = mod
    for p in parts[:-1]:
        owner = getattr(owner, p)
    return owner, parts[-1]


def main(argv):
    modname, fname, budget, per_path, out = argv[0], argv[1], float(argv[2]), float(argv[3]), argv[4]
    t0 = time.time()
    result = dict(module=modname, function=fname, twin=os.environ.get('VERIF_TWIN') == '1',
                  item=os.environ.get('VERIF_ITEM', ''), verdict='error', messages=[], cex=None,
                  paths=0, nontrivial_paths=0, z3_checks=0, z3_seconds=0.0, targets={}, glue=[], cpu_s=0.0, wall_s=0.0)

    def flush():
        result['wall_s'] = round(time.time() - t0, 3)
        result['cpu_s'] = round(time.process_time(), 3)
        tmp = out + '.tmp'
        with open(tmp, 'w') as f:
            json.dump(result, f)
        os.replace(tmp, out)

    try:
        fixdir = os.environ.get('VERIF_FIXDIR')
        if fixdir:
            sys.path.insert(0, fixdir)
        seed = int(os.environ.get('VERIF_SEED', '0') or 0)
        random.seed(seed)

        import z3
        zstat = {'n': 0, 't': 0.0}
        _orig_check = z3.Solver.check

        def _counted_check(self, *a):
            s = time.perf_counter()
            try:
                return _orig_check(self, *a)
            finally:
                zstat['n'] += 1
                zstat['t'] += time.perf_counter() - s
        z3.Solver.check = _counted_check

        from vlib import glue, hx
        glue.install_default()

        mod = importlib.import_module(modname)
        meta = hx.REGISTRY[(modname, fname)]
        fn = meta['fn']
        for g in meta['glue']:
            getattr(glue, g)()

        # call counters on the declared targets (vacuity guard)
        counts = collections.Counter()
        nontrivial = set()
        stats = collections.Counter()
        for spec in meta['targets']:
            try:
                owner, attr = _resolve(spec)
                raw = owner.__dict__[attr] if isinstance(owner, type) else getattr(owner, attr)
            except Exception:
                result['verdict'] = 'missing_target'
                result['messages'] = ['target %s cannot be resolved' % spec]
                flush()
                return 0
            kind = None
            f0 = raw
            if isinstance(raw, staticmethod):
                kind, f0 = staticmethod, raw.__func__
            elif isinstance(raw, classmethod):
                kind, f0 = classmethod, raw.__func__
            elif isinstance(raw, property):
                kind, f0 = property, raw.fget

            def mk(f0, spec):
                def counted(*a, **kw):
                    counts[spec] += 1
                    nontrivial.add(stats['num_paths'])
                    return f0(*a, **kw)
                counted.__name__ = getattr(f0, '__name__', 'counted')
                counted.__qualname__ = getattr(f0, '__qualname__', 'counted')
                counted.__doc__ = None
                return counted
            w = mk(f0, spec)
            if kind is property:
                w = property(w, raw.fset, raw.fdel)
            elif kind is not None:
                w = kind(w)
            setattr(owner, attr, w)
            counts[spec] += 0
        if hasattr(mod, 'after_patch'):
            mod.after_patch()

        import crosshair.core as core
        from crosshair.core_and_libs import analyze_function
        from crosshair.options import AnalysisOptionSet
        from crosshair.statespace import MessageType, context_statespace
        from crosshair.tracers import NoTracing

        captured = []
        _orig_mk = core.make_counterexample_message

        def _mk(conditions, args, return_val=None):
            msg = _orig_mk(conditions, args, return_val)
            try:
                with NoTracing():
                    reprer = context_statespace().extra(core.LazyCreationRepr)
                    conc = reprer.deep_realize(args)
                captured.append({k: repr(v) for k, v in conc.arguments.items()})
            except BaseException as e:  # noqa
                captured.append({'__error__': repr(e)})
            return msg
        core.make_counterexample_message = _mk

        opts = AnalysisOptionSet(per_condition_timeout=budget, per_path_timeout=per_path,
                                 max_uninteresting_iterations=sys.maxsize, max_iterations=sys.maxsize,
                                 stats=stats)
        checkables = analyze_function(fn, opts)
        if not checkables:
            result['verdict'] = 'error'
            result['messages'] = ['no contract found on %s.%s' % (modname, fname)]
            flush()
            return 0
        msgs = []
        for c in checkables:
            msgs.extend(c.analyze())
        verdict = 'unknown'
        out_msgs = []
        for m in msgs:
            out_msgs.append(dict(state=m.state.name, message=m.message, line=m.line,
                                 traceback=(m.traceback or '')[-3000:]))
            if m.state in (MessageType.POST_FAIL, MessageType.EXEC_ERR, MessageType.POST_ERR):
                verdict = 'refuted'
            elif m.state == MessageType.CONFIRMED and verdict != 'refuted':
                verdict = 'confirmed'
            elif m.state == MessageType.PRE_UNSAT and verdict not in ('refuted',):
                verdict = 'pre_unsat'
            elif m.state == MessageType.SYNTAX_ERR:
                verdict = 'error'
        result.update(verdict=verdict, messages=out_msgs, cex=(captured[-1] if captured and verdict == 'refuted' else None),
                      paths=stats.get('num_paths', 0), nontrivial_paths=len(nontrivial), z3_checks=zstat['n'], z3_seconds=round(zstat['t'], 3),
                      targets=dict(counts), glue=list(glue.USED))
    except BaseException:
        result['verdict'] = 'error'
        result['messages'] = [traceback.format_exc()[-4000:]]
    flush()
    return 0


if __name__ == '__main__':
    sys.exit(main(sys.argv[1:]))
