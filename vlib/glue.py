"""CrossHair glue (DESIGN.md section 3.2, G1-G7).  Imported by vlib.worker only -- never by replays.

Nothing here models stone.  The items are:
 G1  '%'-formatting / str.format / f-string formatting with a symbolic *number or container*
     operand yields an opaque constant (error-message text is not examined); formatting of
     symbolic strings through str.format stays exact.
 G2  getattr/setattr/hasattr/delattr keep tracing on when the attribute is a Python-level descriptor
     defined in a stone module (so that stone_base.Attribute.__get__/__set__ run symbolically).
 G3  stone_validators.get_value_string / generic_type_name return constants.
 G4  posixpath.normpath := CPython's own pure-Python fallback.
 G6  hashlib.md5 stub (installed on request, C13 only).
 float pinning (installed on request): symbolic floats use the real-number model only.
"""
import os
import posixpath
import sys

import crosshair.core_and_libs  # noqa: F401  (registers the stock patches first; ours then override)
import crosshair.core as _core
from crosshair.tracers import NoTracing, ResumedTracing  # noqa: F401
from crosshair.libimpl import builtinslib as _bl
from crosshair.libimpl.builtinslib import AnySymbolicStr, SymbolicValue
from crosshair import opcode_intercept as _oi

USED = []          # names of the glue items actually installed in this process


def _is_sym(x):
    return isinstance(x, SymbolicValue) or type(x).__module__.startswith('crosshair')


def _has_symnum(x, depth=0):
    """symbolic number / container (symbolic *strings* format exactly and are not opaque)"""
    if isinstance(x, AnySymbolicStr):
        return False
    if _is_sym(x):
        return True
    if depth < 3 and isinstance(x, (tuple, list)):
        return any(_has_symnum(y, depth + 1) for y in x)
    if depth < 3 and isinstance(x, dict):
        return any(_has_symnum(k, depth + 1) or _has_symnum(v, depth + 1) for k, v in x.items())
    return False


def _any_sym(x, depth=0):
    if _is_sym(x):
        return True
    if depth < 3 and isinstance(x, (tuple, list)):
        return any(_any_sym(y, depth + 1) for y in x)
    if depth < 3 and isinstance(x, dict):
        return any(_any_sym(k, depth + 1) or _any_sym(v, depth + 1) for k, v in x.items())
    return False


# ---------------------------------------------------------------- G1
import re as _re
_SPEC = _re.compile(r'%(?:\((\w+)\))?[#0\- +]*(?:\*|\d+)?(?:\.(?:\*|\d+))?[hlL]?([diouxXeEfFgGcrsa%])')


def _check_percent(template, operands):
    """The text of a message is opaque (G1), but a formatting operation that Python would refuse must still be
    refused: operand count and the kind required by each conversion (%d %f ... need a number) are checked here,
    concretely for concrete operands and by type for symbolic ones."""
    specs = [(m.group(1), m.group(2)) for m in _SPEC.finditer(template) if m.group(2) != '%']
    if any(key for key, _ in specs):
        return                                  # mapping-style formatting: not used by the code under analysis
    ops = operands if isinstance(operands, tuple) else (operands,)
    if len(ops) != len(specs):
        if not (len(specs) == 1 and not isinstance(operands, tuple)):
            raise TypeError('not all arguments converted during string formatting'
                            if len(ops) > len(specs) else 'not enough arguments for format string')
    for (_, conv), op in zip(specs, ops):
        if conv in 'diouxXeEfFgG':
            with NoTracing():
                numeric = isinstance(op, (int, float)) or (
                    _is_sym(op) and not isinstance(op, AnySymbolicStr) and
                    getattr(op, 'python_type', None) in (int, float, bool))
                known = numeric or not _is_sym(op)
            if known and not numeric:
                raise TypeError('%%%s format: a real number is required, not %s' % (conv, type(op).__name__))


def _opaque_percent(self, other):
    if not isinstance(self, str):
        raise TypeError
    with NoTracing():
        if not _any_sym(self) and not _any_sym(other):
            return self.__mod__(other)
        concrete_template = not _any_sym(self)
    if concrete_template:
        _check_percent(self, other)
    return "<msg>"


def py_format(template, args, kwargs):
    """G5: pure-Python twin of str.format for templates made of {{, }}, {}, {N} and {name} (no conversions or
    format specs), so that a *symbolic template* is processed symbolically instead of being realised."""
    out = []
    auto = 0
    i = 0
    n = len(template)
    while i < n:
        c = template[i]
        if c == '{':
            if i + 1 < n and template[i + 1] == '{':
                out.append('{')
                i += 2
                continue
            j = i + 1
            while j < n and template[j] != '}':
                if template[j] == '{':
                    raise ValueError("unexpected '{' in field name")
                j += 1
            if j >= n:
                raise ValueError("expected '}' before end of string")
            name = template[i + 1:j]
            if name == '':
                if auto >= len(args):
                    raise IndexError('Replacement index %d out of range for positional args tuple' % auto)
                out.append(str(args[auto]))
                auto += 1
            elif name.isdigit():
                out.append(str(args[int(name)]))
            else:
                if '!' in name or ':' in name or '.' in name or '[' in name:
                    raise NotImplementedError('G5 twin: conversions / specs are outside the modelled subset')
                out.append(str(kwargs[name]))
            i = j + 1
            continue
        if c == '}':
            if i + 1 < n and template[i + 1] == '}':
                out.append('}')
                i += 2
                continue
            raise ValueError("Single '}' encountered in format string")
        out.append(c)
        i += 1
    return ''.join(out)


USE_PY_FORMAT = [False]


def _opaque_format(self, /, *a, **kw):
    with NoTracing():
        sym = _has_symnum(a) or _has_symnum(kw)
        if not sym and not _any_sym(self) and not _any_sym(a) and not _any_sym(kw):
            return self.format(*a, **kw)
        symtemplate = _any_sym(self)
    if not sym:
        if symtemplate and USE_PY_FORMAT[0]:
            return py_format(self, a, kw)
        return _bl._str_format(self, *a, **kw)
    return "<msg>"


def install_py_format():
    USE_PY_FORMAT[0] = True
    from crosshair import abcstring as _abc

    def _fmt(self, *args, **kwds):
        return py_format(self, args, kwds)
    _abc.AbcString.format = _fmt
    USED.append('G5 pure-Python twin of str.format for symbolic templates ({{ }} {} {name})')


def _fsv(kind):
    def m(self, *a):
        with NoTracing():
            sym = _has_symnum(self.value)
        if sym:
            self.formatted = "<v>"
        elif kind == 'str':
            self.formatted = str(self.value)
        elif kind == 'repr':
            self.formatted = repr(self.value)
        else:
            self.formatted = format(self.value, *a)
        return ""
    return m


def install_formatting():
    _core._PATCH_REGISTRATIONS[str.__mod__] = _opaque_percent
    _core._PATCH_REGISTRATIONS[str.format] = _opaque_format
    _oi.FormatStashingValue.__str__ = _fsv('str')
    _oi.FormatStashingValue.__repr__ = _fsv('repr')
    _oi.FormatStashingValue.__format__ = _fsv('format')
    USED.append('G1 opaque formatting of symbolic numbers/containers')


# ---------------------------------------------------------------- G2
_MISSING = _bl._MISSING
_o_set, _o_get, _o_has = _bl._setattr, _bl._getattr, _bl._hasattr


def _pydesc(obj, name):
    """the stone-defined Python-level descriptor `name` resolves to on obj, or None -- evaluated untraced"""
    with NoTracing():
        if isinstance(obj, SymbolicValue) or isinstance(name, AnySymbolicStr) or not isinstance(name, str):
            return None
        if isinstance(obj, type):
            return None
        for k in type(obj).__mro__:
            d = k.__dict__.get(name)
            if d is not None:
                if hasattr(type(d), '__get__') and type(d).__module__.startswith('stone'):
                    return d
                return None
        return None


def _setattr(obj, name, value):
    d = _pydesc(obj, name)
    if d is None:
        return _o_set(obj, name, value)
    return d.__set__(obj, value)


def _getattr(obj, name, default=_MISSING):
    d = _pydesc(obj, name)
    if d is None:
        return _o_get(obj, name, default)
    try:
        return d.__get__(obj, type(obj))
    except AttributeError:
        if default is _MISSING:
            raise
        return default


def _hasattr(obj, name):
    d = _pydesc(obj, name)
    if d is None:
        return _o_has(obj, name)
    try:
        d.__get__(obj, type(obj))
        return True
    except AttributeError:
        return False


def install_descriptors():
    _core._PATCH_REGISTRATIONS[setattr] = _setattr
    _core._PATCH_REGISTRATIONS[getattr] = _getattr
    _core._PATCH_REGISTRATIONS[hasattr] = _hasattr
    USED.append('G2 descriptor-preserving getattr/setattr/hasattr')


# ---------------------------------------------------------------- G3
def install_message_helpers():
    from stone.backends.python_rsrc import stone_validators as _bv
    _bv.get_value_string = lambda v, max_length=1000: '<val>'
    _bv.generic_type_name = lambda v: '<type>'
    USED.append('G3 get_value_string/generic_type_name constant')


# ---------------------------------------------------------------- G4
def _py_normpath(path):
    """Normalize path, eliminating double slashes, etc.  (verbatim: CPython 3.12 Lib/posixpath.py, fallback body)"""
    path = os.fspath(path)
    if isinstance(path, bytes):
        sep = b'/'
        empty = b''
        dot = b'.'
        dotdot = b'..'
    else:
        sep = '/'
        empty = ''
        dot = '.'
        dotdot = '..'
    if path == empty:
        return dot
    initial_slashes = path.startswith(sep)
    # POSIX allows one or two initial slashes, but treats three or more
    # as single slash.
    # (see https://pubs.opengroup.org/onlinepubs/9699919799/basedefs/V1_chap04.html#tag_04_13)
    if (initial_slashes and
            path.startswith(sep * 2) and not path.startswith(sep * 3)):
        initial_slashes = 2
    comps = path.split(sep)
    new_comps = []
    for comp in comps:
        if comp in (empty, dot):
            continue
        if (comp != dotdot or (not initial_slashes and not new_comps) or
                (new_comps and new_comps[-1] == dotdot)):
            new_comps.append(comp)
        elif new_comps:
            new_comps.pop()
    comps = new_comps
    path = sep.join(comps)
    if initial_slashes:
        path = sep * initial_slashes + path
    return path or dot


def install_normpath():
    posixpath.normpath = _py_normpath
    os.path.normpath = _py_normpath
    USED.append('G4 pure-Python posixpath.normpath (CPython fallback body)')


# ---------------------------------------------------------------- G6
class _FakeMd5:
    DIGEST = '0123456789abcdef0123456789abcdef'

    def __init__(self, data=b''):
        pass

    def hexdigest(self):
        return self.DIGEST


def install_md5_stub():
    import hashlib
    hashlib.md5 = _FakeMd5
    USED.append('G6 hashlib.md5 returns a fixed 32-hex-digit digest')


# ---------------------------------------------------------------- float pinning
def pin_real_floats():
    """Real-number model only.  CrossHair caps every verdict at UNKNOWN once a real-based float exists (it is an
    approximation of binary64); harnesses that opt in here accept that approximation explicitly -- rounding and
    overflow of int->float conversion are stated as outside their claim -- so the cap is removed."""
    _bl._PYTYPE_TO_WRAPPER_TYPE[float] = ((_bl.RealBasedSymbolicFloat, 1.0),)

    def _init(self, smtvar, typ=float):
        _bl.SymbolicValue.__init__(self, smtvar, typ)
    _bl.RealBasedSymbolicFloat.__init__ = _init
    USED.append('symbolic floats pinned to the real-number model (no IEEE rounding/overflow)')


def pin_ieee_floats():
    _bl._PYTYPE_TO_WRAPPER_TYPE[float] = ((_bl.PreciseIeeeSymbolicFloat, 1.0),)
    USED.append('symbolic floats use the precise IEEE-754 binary64 model only (z3 FP theory)')


def install_default():
    install_formatting()
    install_descriptors()
    install_message_helpers()
