"""Which harness modules decide which property; which of them need the compiled catalogue."""
import json

PLAN = {
    'C01': ['harness.fe_typeargs', 'harness.fe_defaults', 'harness.fe_examples', 'harness.fe_docrefs', 'harness.fe_attrs', 'harness.fe_names', 'harness.fe_structure', 'harness.fe_rules', 'harness.c11_layout'],
    'C02': ['harness.fe_typeargs', 'harness.fe_defaults', 'harness.fe_examples', 'harness.fe_attrs', 'harness.fe_structure', 'harness.fe_annotations', 'harness.fe_rules', 'harness.c02_units'],
    'C03': ['harness.fe_typeargs', 'harness.fe_defaults', 'harness.fe_examples', 'harness.fe_docrefs', 'harness.fe_attrs', 'harness.fe_names', 'harness.fe_structure', 'harness.fe_rules', 'harness.c03_units', 'harness.c03_text', 'harness.c11_layout'],
    'C10': ['harness.fe_defaults', 'harness.fe_examples', 'harness.c10_emit'],
    'C04': ['harness.c04_roundtrip'],
    'C05': ['harness.c04_roundtrip', 'harness.c05_names'],
    'C06': ['harness.c06_decoder'],
    'C07': ['harness.c07_evolution'],
    'C08': ['harness.c08_validators', 'harness.c08_generated'],
    'C11': ['harness.c11_layout', 'harness.c11_text'],
    'C13': ['harness.c13_privacy'],
    'C14': ['harness.c14_client'],
    'C18': ['harness.c18_paths', 'harness.c18_emit'],
    'C19': ['harness.c19_filter'],
}

# properties for which a catalogue (of valid specs) that no longer compiles / imports is itself the violation
FIXTURE_FAILURE_IS_VIOLATION = ('C01', 'C03', 'C14')

NEEDS_FIXTURES = {
    'harness.c04_roundtrip': ('shapes',),
    'harness.c05_names': ('names',),
    'harness.c06_decoder': ('shapes',),
    'harness.c07_evolution': ('evolution',),
    'harness.c08_generated': ('shapes',),
    'harness.c13_privacy': ('annotated',),
    'harness.c14_client': ('shapes', 'client2'),
    'harness.fe_examples': ('holes',),
    'harness.c10_emit': ('shapes', 'client2', 'holes'),
}


def signature(rep):
    """(harness function, kind, exception type, innermost stone frame) of a reproduced replay"""
    obs = {}
    try:
        obs = json.loads(rep.get('observed', '{}').strip().splitlines()[-1])
    except Exception:
        pass
    return (rep.get('function'), obs.get('kind'), obs.get('exc_type'), obs.get('frame'))


def signature_matches(known, rep, sig):
    """a listed finding names the failing call site: harness function + catalogue item (+ optionally the kind of
    failure, exception type and innermost stone frame); fields left out of the listing are not compared"""
    ks = known.get('signature') or {}
    got = {'function': sig[0], 'kind': sig[1], 'exc_type': sig[2], 'frame': sig[3], 'item': rep.get('item')}
    if not ks.get('function') or not ks.get('item'):
        return False
    return all(got[k] == v for k, v in ks.items() if v is not None)
