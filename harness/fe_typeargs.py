"""Frontend slot (a): arguments of the builtin types.  The symbolic values sit in AstTypeRef.args exactly as the
parser would deliver them (bool / int / float / str / NullToken).

Language rules used as the oracle (lang_ref.rst "Basic types" table and the documented ranges):
  Int32/64, UInt32/64 (min_value, max_value): integers within the width of the type
  Float32/64 (min_value, max_value):           numbers (within the float32 range for Float32)
  String (min_length >= 0, max_length >= 1, max_length >= min_length, pattern: a valid regex string)
  List (item type, min_items >= 0, max_items >= 1, max_items >= min_items)
  Timestamp (format string);  Bytes, Boolean, Void: no arguments
  unknown keyword, missing or surplus positional argument: rejected
Unspecified (not judged): booleans where numbers are expected, min > max for numeric types.
"""
from typing import Union

from stone.frontend import ast as A
from stone.frontend.lexer import NullToken

from harness import fe_common as fe
from vlib import hx

V = Union[None, bool, int, float, str]          # None stands for the literal `null`
NSTR = hx.tier(2, 3)
F32 = 3.40282 * 10**38

TEMPLATE = '''namespace ns

struct S
    f %s
'''


def _asts(type_name, pos, kw):
    asts = fe.clone(BASE)
    tr = asts[1].fields[0].type_ref
    tr.name = type_name
    tr.args = ([fe.to_ast_literal(v) if not isinstance(v, A.AstTypeRef) else v for v in pos],
               {k: fe.to_ast_literal(v) for k, v in kw.items()})
    return [asts]


def _text(type_name, pos, kw):
    parts = []
    for v in pos:
        parts.append(v if isinstance(v, str) and v.startswith('@') else fe.lit(v))
    parts = [p[1:] if p.startswith('@') else p for p in parts]
    parts += ['%s=%s' % (k, fe.lit(v)) for k, v in kw.items()]
    args = '(%s)' % ', '.join(parts) if parts else ''
    return [('t.stone', TEMPLATE % (type_name + args))]


BASE = fe.parse(TEMPLATE % 'Int32')


def _field_type(api):
    return api.namespaces['ns'].data_type_by_name['S'].fields[0].data_type


def _is_int(v):
    return isinstance(v, int) and not isinstance(v, bool)


def _num_kind(v):
    """'int' | 'float' | 'bool' | 'other'"""
    if isinstance(v, bool):
        return 'bool'
    if isinstance(v, int):
        return 'int'
    if isinstance(v, float):
        return 'float'
    return 'other'


WIDTH = {'Int32': (-2**31, 2**31 - 1), 'UInt32': (0, 2**32 - 1), 'Int64': (-2**63, 2**63 - 1), 'UInt64': (0, 2**64 - 1)}
_TG = ['stone.frontend.ir_generator:IRGenerator._instantiate_data_type']
_OUT = ['syntax-level errors (lexer / parser on malformed text)', 'booleans as numbers, min > max for numeric types',
        'float literals whose repr needs an exponent sign the lexer cannot read are rendered without it']


@hx.harness(props=['C01', 'C02', 'C03'], targets=_TG, items=list(WIDTH),
            bound='min_value / max_value each absent or any literal: null, bool, any int, any finite float, string <= %d '
                  'chars' % NSTR, outside=_OUT, budget=(90, 300))
def int_bounds(has_lo: bool, lo: V, has_hi: bool, hi: V) -> bool:
    """
    pre: not isinstance(lo, str) or len(lo) <= NSTR
    pre: not isinstance(hi, str) or len(hi) <= NSTR
    pre: not isinstance(lo, float) or (lo == lo and abs(lo) < 1e300)
    pre: not isinstance(hi, float) or (hi == hi and abs(hi) < 1e300)
    post: _
    """
    tname = hx.ITEM
    wmin, wmax = WIDTH[tname]
    kw = {}
    if has_lo:
        kw['min_value'] = lo
    if has_hi:
        kw['max_value'] = hi
    kinds = [_num_kind(v) for v in kw.values()]
    if 'bool' in kinds:
        oracle = 'unspec'
    elif any(k != 'int' for k in kinds):
        oracle = 'reject'
    elif (has_lo and lo < wmin) or (has_hi and hi > wmax):
        oracle = 'reject'
    elif (has_lo and lo > wmax) or (has_hi and hi < wmin) or (has_lo and has_hi and lo > hi):
        oracle = 'unspec'                     # an empty range: the documents are silent
    else:
        oracle = 'accept'

    def fidelity(api):
        dt = _field_type(api)
        return dt.name == tname and dt.min_value == (lo if has_lo else None) and dt.max_value == (hi if has_hi else None)
    return fe.decide(_asts(tname, [], kw), lambda: _text(tname, [], kw), oracle, fidelity)


VF = Union[None, bool, float, str]


def _float_decide(tname, has_lo, lo, has_hi, hi):
    kw = {}
    if has_lo:
        kw['min_value'] = lo
    if has_hi:
        kw['max_value'] = hi
    kinds = [_num_kind(v) for v in kw.values()]
    if 'bool' in kinds:
        oracle = 'unspec'
    elif any(k == 'other' for k in kinds):
        oracle = 'reject'
    elif tname == 'Float32' and ((has_lo and lo < -F32) or (has_hi and hi > F32)):
        oracle = 'reject'
    elif (tname == 'Float32' and ((has_lo and lo > F32) or (has_hi and hi < -F32))) or (has_lo and has_hi and lo > hi):
        oracle = 'unspec'
    else:
        oracle = 'accept'

    def fidelity(api):
        dt = _field_type(api)
        return (dt.name == tname and (dt.min_value == lo if has_lo else dt.min_value is None)
                and (dt.max_value == hi if has_hi else dt.max_value is None)
                and (not has_lo or isinstance(dt.min_value, float)) and (not has_hi or isinstance(dt.max_value, float)))
    return fe.decide(_asts(tname, [], kw), lambda: _text(tname, [], kw), oracle, fidelity)


@hx.harness(props=['C01', 'C02', 'C03'], targets=_TG, items=['Float32', 'Float64'],
            bound='min_value / max_value each absent or any literal: null, bool, any finite binary64 (IEEE-exact), string '
                  '<= %d chars' % NSTR, outside=_OUT, budget=(120, 400), glue=['pin_ieee_floats'])
def float_bounds(has_lo: bool, lo: VF, has_hi: bool, hi: VF) -> bool:
    """
    pre: not isinstance(lo, str) or len(lo) <= NSTR
    pre: not isinstance(hi, str) or len(hi) <= NSTR
    pre: not isinstance(lo, float) or (lo == lo and abs(lo) < 1e300)
    pre: not isinstance(hi, float) or (hi == hi and abs(hi) < 1e300)
    post: _
    """
    return _float_decide(hx.ITEM, has_lo, lo, has_hi, hi)


@hx.harness(props=['C01', 'C02', 'C03'], targets=_TG, items=['Float32', 'Float64'],
            bound='integer literals (|v| < 1e15) as min_value / max_value of a float type; int -> float conversion in the '
                  'real-number model', outside=_OUT, budget=(120, 400), glue=['pin_real_floats'])
def float_bounds_int(has_lo: bool, lo: int, has_hi: bool, hi: int) -> bool:
    """
    pre: abs(lo) < 10**15 and abs(hi) < 10**15
    post: _
    """
    return _float_decide(hx.ITEM, has_lo, lo, has_hi, hi)


@hx.harness(props=['C01', 'C02', 'C03'], targets=_TG, items=['String', 'List'],
            bound='min/max length (items) each absent or any literal: null, bool, any int, finite float, string <= %d '
                  'chars' % NSTR, outside=_OUT, budget=(90, 300))
def length_bounds(has_lo: bool, lo: V, has_hi: bool, hi: V) -> bool:
    """
    pre: not isinstance(lo, str) or len(lo) <= NSTR
    pre: not isinstance(hi, str) or len(hi) <= NSTR
    pre: not isinstance(lo, float) or (lo == lo and abs(lo) < 1e300)
    pre: not isinstance(hi, float) or (hi == hi and abs(hi) < 1e300)
    post: _
    """
    tname = hx.ITEM
    nlo, nhi = ('min_length', 'max_length') if tname == 'String' else ('min_items', 'max_items')
    kw = {}
    if has_lo:
        kw[nlo] = lo
    if has_hi:
        kw[nhi] = hi
    pos = [A.AstTypeRef('t.stone', 4, 0, 'Int32', ([], {}), False, None)] if tname == 'List' else []
    kinds = [_num_kind(v) for v in kw.values()]
    if 'bool' in kinds:
        oracle = 'unspec'
    elif any(k != 'int' for k in kinds):
        oracle = 'reject'
    elif (has_lo and lo < 0) or (has_hi and hi < 1) or (has_lo and has_hi and hi < lo):
        oracle = 'reject'
    else:
        oracle = 'accept'

    def fidelity(api):
        dt = _field_type(api)
        got = (dt.min_length, dt.max_length) if tname == 'String' else (dt.min_items, dt.max_items)
        return dt.name == tname and got == (lo if has_lo else None, hi if has_hi else None)

    def text():
        return _text(tname, ['@Int32'] if tname == 'List' else [], kw)
    return fe.decide(_asts(tname, pos, kw), text, oracle, fidelity)


PATTERNS = ['[a-z]+', 'a|b', '(', '[', '*', '', '\\d{2}', 5, True, None, 1.5]


def _pattern_items():
    if hx.ASPECT == 'C02':
        return [repr(p) for p in PATTERNS if isinstance(p, str) and p not in ('(', '[', '*')]
    return [repr(p) for p in PATTERNS]


@hx.harness(props=['C01', 'C02', 'C03'], targets=_TG, items=_pattern_items,
            bound='String(pattern=<item>) for a fixed list of valid regexes, invalid regexes and non-string literals; '
                  'min_length symbolic (any int)', outside=_OUT, budget=(60, 120))
def string_pattern(has_lo: bool, lo: int) -> bool:
    """
    post: _
    """
    pat = eval(hx.ITEM)
    kw = {'pattern': pat}
    if has_lo:
        kw['min_length'] = lo
    import re
    if isinstance(pat, str):
        try:
            re.compile(pat)
            valid = True
        except re.error:
            valid = False
    else:
        valid = False
    if not valid:
        oracle = 'reject'
    elif has_lo and lo < 0:
        oracle = 'reject'
    else:
        oracle = 'accept'
    if pat == '':
        oracle = 'unspec' if oracle == 'accept' else oracle

    def fidelity(api):
        dt = _field_type(api)
        return dt.pattern == pat and dt.min_length == (lo if has_lo else None)
    return fe.decide(_asts('String', [], kw), lambda: _text('String', [], kw), oracle, fidelity)


SHAPES = ['Int32:pos', 'Int32:kw', 'String:pos', 'String:kw', 'Bytes:pos', 'Bytes:kw', 'Boolean:pos', 'Boolean:kw',
          'Float64:pos', 'Float64:kw', 'Timestamp:none', 'Timestamp:pos', 'Timestamp:pos2', 'Timestamp:kw',
          'Timestamp:fmtkw', 'List:none', 'List:kw', 'List:poslit', 'Void:pos', 'S2:pos', 'S2:kw']


@hx.harness(props=['C01', 'C03'], targets=['stone.frontend.ir_generator:IRGenerator._resolve_type'], items=SHAPES,
            bound='per builtin type: a surplus positional argument / an unknown keyword argument / a missing positional '
                  'argument, the argument value any literal (null, bool, int, finite float, string <= %d)' % NSTR,
            outside=_OUT, budget=(60, 200))
def arg_shape(v: V) -> bool:
    """
    pre: not isinstance(v, str) or len(v) <= NSTR
    pre: not isinstance(v, float) or (v == v and abs(v) < 1e300)
    post: _
    """
    tname, shape = hx.ITEM.split(':')
    pos, kw = [], {}
    oracle = 'reject'
    if shape == 'pos':
        pos = [v]
        if tname == 'Timestamp':
            oracle = 'accept' if isinstance(v, str) else 'reject'
            if isinstance(v, str):
                oracle = 'unspec' if '%' in v else 'accept'
    elif shape == 'pos2':
        pos = ['%Y', v]
    elif shape == 'kw':
        kw = {'zzz': v}
        if tname == 'Timestamp':
            pos = ['%Y']
        if tname == 'List':
            pos = [A.AstTypeRef('t.stone', 4, 0, 'Int32', ([], {}), False, None)]
    elif shape == 'fmtkw':
        kw = {'fmt': v}                       # a positional argument given by keyword
    elif shape == 'poslit':
        pos = [v]                             # List(<literal>) : the item type must be a type
        oracle = 'reject'
    elif shape == 'none':
        pass

    def text():
        spec = TEMPLATE % (tname + '(%s)' % ', '.join(
            [('Int32' if isinstance(p, A.AstTypeRef) else fe.lit(p)) for p in pos] +
            ['%s=%s' % (k, fe.lit(x)) for k, x in kw.items()]))
        if tname == 'S2':
            spec += '\nstruct S2\n    g Int32\n'
        return [('t.stone', spec)]
    asts = fe.clone(BASE2 if tname == 'S2' else BASE)
    tr = asts[1].fields[0].type_ref
    tr.name = tname
    tr.args = ([fe.to_ast_literal(p) for p in pos], {k: fe.to_ast_literal(x) for k, x in kw.items()})
    return fe.decide([asts], text, oracle)


BASE2 = fe.parse(TEMPLATE % 'S2' + '\nstruct S2\n    g Int32\n')
