"""C04 (encode -> decode -> encode round trip) and C05 (wire format vs reference encoder) over the
type-shape catalogue: one harness instance per catalogue type, symbolic leaf values / set-ness / tags."""
from typing import Tuple

from stone.backends.python_rsrc import stone_serializers as ss
from stone.backends.python_rsrc import stone_validators as bv

from refmodel import wire
from vlib import fixtures, hx, valgen

NS = hx.tier(2, 3)       # string length bound
NL = hx.tier(1, 2)       # list length bound

API = fixtures.api_for('shapes')
MODS = {ns: fixtures.module('catgen', ns) for ns in ('cat', 'cat2')}

_T_ENC = ['stone.backends.python_rsrc.stone_serializers:json_compat_obj_encode',
          'stone.backends.python_rsrc.stone_serializers:StoneSerializerBase.encode_sub']
_T_DEC = ['stone.backends.python_rsrc.stone_serializers:json_compat_obj_decode']

SKIP_TYPES = ('WinPath',) if hx.TIER == 'quick' else ()    # no string within the quick length bound matches its pattern


def type_items():
    out = []
    for nsname in ('cat', 'cat2'):
        ns = API.namespaces[nsname]
        for dt in ns.data_types:
            if dt.name in SKIP_TYPES:
                continue
            if valgen.is_struct_type(dt) and dt.parent_type is not None and \
                    dt.parent_type.has_enumerated_subtypes():
                pass   # a leaf of a subtype tree is also usable as a plain struct type
            out.append('%s.%s' % (nsname, dt.name))
        for al in ns.aliases:
            if al.name in SKIP_TYPES:
                continue
            out.append('%s.%s' % (nsname, al.name))
    return out


# types whose path count needs several cores: the first log2(n) symbolic bools are fixed per instance
SPLIT = {'cat.Maps': 16, 'cat.HasUnions': 16, 'cat.Nest': 16, 'cat.Opt': 16, 'cat.UO': 8, 'cat.Lists': 2,
         'cat.Deep': 2, 'cat.UsesAliases': 2, 'cat.WithBytes': 8}
# explored one top-level field at a time (the other fields hold fixed valid values), in both tiers
FOCUS = ('cat.HasUnions', 'cat.WithBytes', 'cat.Colls', 'cat.UColl')


def split_items(items):
    out = []
    for it in items:
        if it in FOCUS:                   # both tiers: the product of these types' independent fields does not finish
            out.extend('%s#%d' % (it, k) for k in range(len([f for f in lookup(it)[0].all_fields
                                                             if not getattr(f, 'catch_all', False)])))
            continue
        n = SPLIT.get(it, 1)
        if hx.TIER == 'thorough':
            n = min(16, n * 4) if n > 1 else 1
        if n == 1:
            out.append(it)
        else:
            out.extend('%s@%d/%d' % (it, k, n) for k in range(n))
    return out


def fixed_bits(item):
    if '@' not in item:
        return ()
    k, n = item.split('@')[1].split('/')
    k, n = int(k), int(n)
    bits = []
    while n > 1:
        bits.append(bool(k & 1))
        k >>= 1
        n >>= 1
    return tuple(bits)


def lookup(item):
    item = item.split('@')[0].split('#')[0]
    nsname, name = item.split('.')
    ns = API.namespaces[nsname]
    if name in ns.data_type_by_name:
        dt = ns.data_type_by_name[name]
    else:
        dt = ns.alias_by_name[name]
    return dt, getattr(MODS[nsname], name[0].upper() + name[1:] + '_validator', None) or \
        getattr(MODS[nsname], valgen.fmt_class(name) + '_validator')


def _has_float(dt, seen=None):
    seen = seen if seen is not None else set()
    dt = wire.unalias(dt)
    if id(dt) in seen:
        return False
    seen.add(id(dt))
    if valgen.is_float_type(dt):
        return True
    if wire.is_nullable_type(dt) or wire.is_list_type(dt):
        return _has_float(dt.data_type, seen)
    if wire.is_map_type(dt):
        return _has_float(dt.value_data_type, seen)
    if wire.is_struct_type(dt):
        if dt.has_enumerated_subtypes():
            if any(_has_float(f.data_type, seen) for f in dt.get_enumerated_subtypes()):
                return True
        return any(_has_float(f.data_type, seen) for f in dt.all_fields)
    if wire.is_union_type(dt):
        return any(_has_float(f.data_type, seen) for f in dt.all_fields)
    return False


def items_nofloat():
    return split_items([it for it in type_items() if not _has_float(lookup(it)[0])])


def items_float():
    return split_items([it for it in type_items() if _has_float(lookup(it)[0])])


I8 = Tuple[int, int, int, int, int, int, int, int]
S4 = Tuple[str, str, str, str]
B16 = Tuple[bool, bool, bool, bool, bool, bool, bool, bool, bool, bool, bool, bool, bool, bool, bool, bool]
F2 = Tuple[float, float, float, float]

OUTSIDE = ['Bytes/Timestamp payloads from a concrete list', 'map keys concrete', 'json.dumps/json.loads entry points',
           'old_style, msgpack', 'subclass instances in struct-typed fields', 'the catch-all tag as a value (C04)',
           'nullable struct member whose payload encodes to {} (documented ambiguity)']


def _build(i, s, b, f, catch_all):
    dt, validator = lookup(hx.ITEM)
    pool = hx.Pool(ints=i, strs=s, bools=fixed_bits(hx.ITEM) + tuple(b), floats=f)
    focus = int(hx.ITEM.split('#')[1]) if '#' in hx.ITEM else None
    gen = valgen.Gen(MODS, pool, max_list=NL, catch_all=catch_all, focus=focus)
    if catch_all:                        # the encode-only property (C05) also sees timestamps that do not round-trip
        gen.ts_choices = valgen.TS_CHOICES + valgen.TS_ENCODE_ONLY
    val, sh = gen.build(dt)
    if not isinstance(sh, tuple):
        # top-level primitive / list / map: nothing validated it yet; the real validator is the validity predicate
        try:
            validator.validate(val)
        except bv.ValidationError:
            raise hx.Skip('not a valid value')
    return dt, validator, val, sh


def _ambiguous(sh):
    """nullable struct union member whose payload encodes to {} (json_serializer.rst 'Nullable')"""
    if isinstance(sh, tuple) and sh[0] == 'union':
        _, u, tag, vsh = sh
        f = [x for x in u.all_fields if x.name == tag][0]
        ft = wire.unalias(f.data_type)
        if wire.is_nullable_type(ft) and isinstance(vsh, tuple) and vsh[0] == 'struct' and not vsh[2] \
                and not wire.unalias(ft.data_type).has_enumerated_subtypes():
            return True
        return _ambiguous(vsh)
    if isinstance(sh, tuple) and sh[0] == 'struct':
        return any(_ambiguous(x) for x in sh[2].values())
    if isinstance(sh, list):
        return any(_ambiguous(x) for x in sh)
    if isinstance(sh, dict):
        return any(_ambiguous(x) for x in sh.values())
    return False


_B04 = ('per catalogue type: all ints, strings <= %d chars, lists <= %d items, maps over keys {k,kk}, '
        'every tag/subtype, every subset of optional fields; strict and lenient' % (NS, NL))
_B05 = ('per catalogue type: all ints, strings <= %d chars, lists <= %d items, maps over keys {k,kk}, '
        'every tag (incl. catch-all)/subtype, every subset of optional fields' % (NS, NL))


@hx.harness(props=['C04'], targets=_T_ENC + _T_DEC, items=items_nofloat, bound=_B04, outside=OUTSIDE, budget=(150, 600))
def roundtrip(i: I8, s: S4, b: B16, strict: bool) -> bool:
    """
    pre: all(len(x) <= NS for x in s)
    post: _
    """
    return _roundtrip(i, s, b, (), strict)


@hx.harness(props=['C04'], targets=_T_ENC + _T_DEC, items=items_float, bound=_B04 + '; floats: all binary64 values (IEEE-exact model)',
            outside=OUTSIDE, budget=(150, 600), glue=['pin_ieee_floats'])
def roundtrip_f(i: I8, s: S4, b: B16, f: F2, strict: bool) -> bool:
    """
    pre: all(len(x) <= NS for x in s)
    post: _
    """
    return _roundtrip(i, s, b, f, strict)


def _roundtrip(i, s, b, f, strict):
    try:
        dt, validator, val, sh = _build(i, s, b, f, False)
    except hx.Skip:
        return True
    if _ambiguous(sh):
        return True
    try:
        j = ss.json_compat_obj_encode(validator, val)
    except bv.ValidationError:
        # a required field of a nested struct cannot be missing here: builder sets all required fields
        return hx.ok(False)
    v2 = ss.json_compat_obj_decode(validator, j, strict=strict)
    j2 = ss.json_compat_obj_encode(validator, v2)
    return hx.ok(v2 == val and j2 == j)


@hx.harness(props=['C05'], targets=_T_ENC, items=items_nofloat, bound=_B05, outside=OUTSIDE[:5], budget=(150, 600))
def wire_format(i: I8, s: S4, b: B16) -> bool:
    """
    pre: all(len(x) <= NS for x in s)
    post: _
    """
    return _wire_format(i, s, b, ())


@hx.harness(props=['C05'], targets=_T_ENC, items=items_float, bound=_B05 + '; floats: all binary64 values (IEEE-exact model)',
            outside=OUTSIDE[:5], budget=(150, 600), glue=['pin_ieee_floats'])
def wire_format_f(i: I8, s: S4, b: B16, f: F2) -> bool:
    """
    pre: all(len(x) <= NS for x in s)
    post: _
    """
    return _wire_format(i, s, b, f)


def _wire_format(i, s, b, f):
    try:
        dt, validator, val, sh = _build(i, s, b, f, True)
    except hx.Skip:
        return True
    j = ss.json_compat_obj_encode(validator, val)
    ref = wire.ref_encode(dt, sh)
    return hx.ok(_plain(j) == ref)


def _plain(j):
    if isinstance(j, dict):
        return {k: _plain(v) for k, v in j.items()}
    if isinstance(j, list):
        return [_plain(v) for v in j]
    return j
