"""Frontend slot (f): name clashes along inheritance chains -- FINITE-domain slots: the name of a field / tag /
subtype tag ranges over the names of every ancestor level, of siblings and one fresh name.  Here the solver only
enumerates the domain (stated as such); the real IRGenerator decides each combination.

Rules (lang_ref.rst): a struct cannot redeclare a field of an ancestor or of itself; a union cannot redeclare a tag of
an ancestor or of itself; a subtype tag cannot equal a field of the struct that enumerates the subtypes."""
from harness import fe_common as fe
from vlib import hx

TEMPLATE = '''namespace ns

struct A
    a1 Int32
    a2 Int32

struct B extends A
    b1 Int32

struct C extends B
    %(f)s Int32
    c2 Int32

union_closed PU
    p1
    p2 Int32

union_closed CU extends PU
    %(t)s
    ct Int32

struct R
    union
        %(s)s RX
    rname String

struct RX extends R
    x Int32
'''
FNAMES = ['a1', 'a2', 'b1', 'c2', 'fresh']
TNAMES = ['p1', 'p2', 'ct', 'fresh']
SNAMES = ['rname', 'x', 'fresh']
BASE = fe.parse(TEMPLATE % dict(f='c1', t='c0', s='rx'))
assert fe.run_text([('t.stone', TEMPLATE % dict(f='c1', t='c0', s='rx'))])[0] == 'ok'


@hx.harness(props=['C01', 'C03'], targets=['stone.frontend.ir_generator:IRGenerator.generate_IR'],
            bound='field name of a depth-3 struct from %s x tag name of a child union from %s x subtype tag from %s '
                  '(finite domain, enumerated by the solver)' % (FNAMES, TNAMES, SNAMES),
            outside=['names outside the finite domain', 'clashes across patches and files (structural)'],
            budget=(100, 300))
def clash(fi: int, ti: int, si: int) -> bool:
    """
    pre: 0 <= fi < len(FNAMES) and 0 <= ti < len(TNAMES) and 0 <= si < len(SNAMES)
    post: _
    """
    f, t, s = FNAMES[fi], TNAMES[ti], SNAMES[si]
    asts = fe.clone(BASE)
    byname = {getattr(n, 'name', None): n for n in asts}
    byname['C'].fields[0].name = f
    byname['CU'].fields[0].name = t
    byname['R'].subtypes[0][0].name = s
    if f != 'fresh' or t != 'fresh' or s == 'rname':
        oracle = 'reject'
    elif s == 'x':
        oracle = 'unspec'
    else:
        oracle = 'accept'
    return fe.decide([asts], lambda: [('t.stone', TEMPLATE % dict(f=f, t=t, s=s))], oracle)
