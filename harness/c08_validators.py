"""C08 layer 1: the validator classes of stone_validators with symbolic parameters and symbolic values.

Oracle: the Stone type semantics (lang_ref.rst "Basic types"): integer width and min/max, finite float in
range, string length and whole-string pattern, bytes length, list item count and item types, nullability.
Three-valued: bool given to a numeric validator is *unspecified* (not judged).
"""
import math
import re
from typing import Dict, List, Optional, Tuple, Union

from stone.backends.python_rsrc import stone_validators as bv
from vlib import hx

NS = hx.tier(4, 6)          # string length bound
NL = hx.tier(3, 4)          # list length bound

INT_KINDS = (
    (bv.Int32, -2**31, 2**31 - 1),
    (bv.UInt32, 0, 2**32 - 1),
    (bv.Int64, -2**63, 2**63 - 1),
    (bv.UInt64, 0, 2**64 - 1),
)
ANY = Union[None, bool, int, float, str, bytes, List[int], Dict[str, int]]

_T_INT = ['stone.backends.python_rsrc.stone_validators:Integer.__init__',
          'stone.backends.python_rsrc.stone_validators:Integer.validate']


def _construct(cls, *a, **kw):
    """(validator, None) or (None, 'assert') -- the constructors signal bad parameters by AssertionError"""
    try:
        return cls(*a, **kw), None
    except AssertionError:
        return None, 'assert'


@hx.harness(props=['C08'], targets=_T_INT, items=[k[0].__name__ for k in INT_KINDS],
            bound='all integers lo, hi, v (unbounded); lo/hi may be absent', budget=(60, 120))
def int_range(lo: Optional[int], hi: Optional[int], v: int) -> bool:
    """
    post: _
    """
    cls, dmin, dmax = [k for k in INT_KINDS if k[0].__name__ == hx.ITEM][0]
    val, err = _construct(cls, lo, hi)
    params_ok = (lo is None or dmin <= lo) and (hi is None or hi <= dmax)
    if val is None:
        return hx.ok(not params_ok)            # parameters within the width must be accepted
    if not params_ok:
        return hx.ok(False)                    # parameters outside the width must be refused
    elo = dmin if lo is None else lo
    ehi = dmax if hi is None else hi
    expect = elo <= v <= ehi
    try:
        r = val.validate(v)
    except bv.ValidationError:
        return hx.ok(not expect)
    return hx.ok(expect and r == v and type(r) is int)


@hx.harness(props=['C08'], targets=_T_INT, items=[k[0].__name__ for k in INT_KINDS],
            bound='value of any JSON/Python kind: None, bool, int, float, str (<=%d), bytes, list, dict' % NS,
            budget=(60, 120))
def int_kinds(v: ANY) -> bool:
    """
    pre: not isinstance(v, (str, bytes)) or len(v) <= NS
    pre: not isinstance(v, (list, dict)) or len(v) <= 2
    post: _
    """
    cls, dmin, dmax = [k for k in INT_KINDS if k[0].__name__ == hx.ITEM][0]
    val = cls()
    if isinstance(v, bool):
        return True                           # unspecified: bool is an int in Python
    expect = isinstance(v, int) and dmin <= v <= dmax
    try:
        r = val.validate(v)
    except bv.ValidationError:
        return hx.ok(not expect)
    return hx.ok(expect and r == v)


_T_REAL = ['stone.backends.python_rsrc.stone_validators:Real.__init__',
           'stone.backends.python_rsrc.stone_validators:Real.validate']
F32 = 3.40282 * 10**38


def _finite(x):
    return not (math.isnan(x) or math.isinf(x))


@hx.harness(props=['C08'], targets=_T_REAL, items=['Float32', 'Float64'],
            bound='all binary64 lo, hi, v incl. NaN, +-inf (IEEE-exact and real-number model)', budget=(120, 300))
def real_range(lo: Optional[float], hi: Optional[float], v: float) -> bool:
    """
    post: _
    """
    cls = getattr(bv, hx.ITEM)
    dmin, dmax = (-F32, F32) if hx.ITEM == 'Float32' else (None, None)
    val, err = _construct(cls, lo, hi)
    # parameters: NaN bounds are unspecified by the language reference
    if (lo is not None and math.isnan(lo)) or (hi is not None and math.isnan(hi)):
        return True
    params_ok = ((lo is None or dmin is None or lo >= dmin) and (hi is None or dmax is None or hi <= dmax))
    if val is None:
        return hx.ok(not params_ok)
    if not params_ok:
        return hx.ok(False)
    elo = dmin if lo is None else lo
    ehi = dmax if hi is None else hi
    expect = _finite(v) and (elo is None or v >= elo) and (ehi is None or v <= ehi)
    try:
        r = val.validate(v)
    except bv.ValidationError:
        return hx.ok(not expect)
    return hx.ok(expect and r == v and type(r) is float)


@hx.harness(props=['C08'], targets=_T_REAL, items=['Float32', 'Float64'],
            bound='integer value v and integer bounds given to a float validator; real-number model of '
                  'int->float conversion (rounding and overflow are outside)', glue=['pin_real_floats'],
            budget=(60, 120))
def real_from_int(lo: Optional[int], hi: Optional[int], v: int) -> bool:
    """
    pre: -10**15 < v < 10**15
    pre: lo is None or -10**15 < lo < 10**15
    pre: hi is None or -10**15 < hi < 10**15
    post: _
    """
    cls = getattr(bv, hx.ITEM)
    val, err = _construct(cls, lo, hi)
    if val is None:
        return hx.ok(False)                   # every bound below 1e15 lies within Float32/64
    expect = (lo is None or v >= lo) and (hi is None or v <= hi)
    try:
        r = val.validate(v)
    except bv.ValidationError:
        return hx.ok(not expect)
    return hx.ok(expect and r == v and isinstance(r, float))


@hx.harness(props=['C08'], targets=_T_REAL, items=['Float32', 'Float64'],
            bound='value of any kind: None, bool, int (|v|<1e15), float, str, bytes, list, dict',
            glue=['pin_real_floats'], budget=(60, 120))
def real_kinds(v: ANY) -> bool:
    """
    pre: not isinstance(v, (str, bytes)) or len(v) <= NS
    pre: not isinstance(v, (list, dict)) or len(v) <= 2
    pre: not isinstance(v, int) or -10**15 < v < 10**15
    post: _
    """
    cls = getattr(bv, hx.ITEM)
    val = cls()
    if isinstance(v, bool):
        return True                           # unspecified
    if isinstance(v, float):
        expect = _finite(v) and (hx.ITEM == 'Float64' or -F32 <= v <= F32)
    else:
        expect = isinstance(v, int)
    try:
        r = val.validate(v)
    except bv.ValidationError:
        return hx.ok(not expect)
    return hx.ok(expect and r == v and isinstance(r, float))


_T_STR = ['stone.backends.python_rsrc.stone_validators:String.__init__',
          'stone.backends.python_rsrc.stone_validators:String.validate']


@hx.harness(props=['C08'], targets=_T_STR,
            bound='all integers m, M (or absent); strings up to %d chars; wrong kinds' % NS, budget=(90, 300))
def string_len(m: Optional[int], M: Optional[int], v: Union[None, bool, int, str, bytes, List[int]]) -> bool:
    """
    pre: not isinstance(v, (str, bytes, list)) or len(v) <= NS
    post: _
    """
    val, err = _construct(bv.String, m, M)
    params_ok = (m is None or m >= 0) and (M is None or M > 0) and (m is None or M is None or M >= m)
    if val is None:
        return hx.ok(not params_ok)
    if not params_ok:
        return hx.ok(False)
    expect = isinstance(v, str) and (m is None or len(v) >= m) and (M is None or len(v) <= M)
    try:
        r = val.validate(v)
    except bv.ValidationError:
        return hx.ok(not expect)
    return hx.ok(expect and r == v)


PATTERNS = ['[a-z]+', 'a|bc', '[0-9]{2}', 'ab*', '(x|y)z?', '[^/]*', 'a.c', '[A-Z][a-z]?']


@hx.harness(props=['C08'], targets=_T_STR, items=PATTERNS,
            bound='strings up to %d chars against a fixed list of simple regexes (CrossHair regex engine); '
                  'whole-string match' % NS, budget=(120, 400))
def string_pattern(v: str) -> bool:
    """
    pre: len(v) <= NS
    post: _
    """
    pat = hx.ITEM
    val = bv.String(pattern=pat)
    expect = re.fullmatch(pat, v) is not None
    try:
        r = val.validate(v)
    except bv.ValidationError:
        return hx.ok(not expect)
    return hx.ok(expect and r == v)


_T_BYTES = ['stone.backends.python_rsrc.stone_validators:Bytes.__init__',
            'stone.backends.python_rsrc.stone_validators:Bytes.validate']


@hx.harness(props=['C08'], targets=_T_BYTES,
            bound='all integers m, M (or absent); bytes up to %d; wrong kinds' % NS, budget=(90, 300))
def bytes_len(m: Optional[int], M: Optional[int], v: Union[None, bool, int, str, bytes, List[int]]) -> bool:
    """
    pre: not isinstance(v, (str, bytes, list)) or len(v) <= NS
    post: _
    """
    val, err = _construct(bv.Bytes, m, M)
    params_ok = (m is None or m >= 0) and (M is None or M > 0) and (m is None or M is None or M >= m)
    if val is None:
        return hx.ok(not params_ok)
    if not params_ok:
        return hx.ok(False)
    expect = isinstance(v, bytes) and (m is None or len(v) >= m) and (M is None or len(v) <= M)
    try:
        r = val.validate(v)
    except bv.ValidationError:
        return hx.ok(not expect)
    return hx.ok(expect and r == v)


_T_LIST = ['stone.backends.python_rsrc.stone_validators:List.__init__',
           'stone.backends.python_rsrc.stone_validators:List.validate']


@hx.harness(props=['C08'], targets=_T_LIST,
            bound='List(UInt32(min_value=lo), m, M): all integers lo (in range), m, M; lists/tuples of '
                  'int|str|None up to %d items; wrong kinds' % NL, budget=(120, 400))
def list_items(lo: int, m: Optional[int], M: Optional[int],
               v: Union[None, int, str, List[Union[int, str, None]], Tuple[int, ...], Dict[str, int]]) -> bool:
    """
    pre: 0 <= lo <= 2**32 - 1
    pre: not isinstance(v, (str, list, tuple, dict)) or len(v) <= NL
    post: _
    """
    val, err = _construct(bv.List, bv.UInt32(min_value=lo), m, M)
    params_ok = (m is None or m >= 0) and (M is None or M > 0) and (m is None or M is None or M >= m)
    if val is None:
        return hx.ok(not params_ok)
    if not params_ok:
        return hx.ok(False)
    if isinstance(v, (list, tuple)):
        if any(isinstance(x, bool) for x in v):
            return True
        expect = ((m is None or len(v) >= m) and (M is None or len(v) <= M)
                  and all(isinstance(x, int) and lo <= x <= 2**32 - 1 for x in v))
    else:
        expect = False
    try:
        r = val.validate(v)
    except bv.ValidationError:
        return hx.ok(not expect)
    return hx.ok(expect and isinstance(r, list) and r == list(v))


_T_MISC = ['stone.backends.python_rsrc.stone_validators:Nullable.validate',
           'stone.backends.python_rsrc.stone_validators:Boolean.validate',
           'stone.backends.python_rsrc.stone_validators:Void.validate',
           'stone.backends.python_rsrc.stone_validators:Map.validate']


@hx.harness(props=['C08'], targets=_T_MISC,
            bound='Boolean, Void, Nullable(Int32(lo,hi)), Nullable(String(max_length=M)), Map(String(min_length=1), '
                  'Nullable(Boolean)) with concrete keys; value of any kind', budget=(120, 300))
def misc_kinds(which: int, lo: int, hi: int, M: int, v: ANY, b1: Union[None, bool, int], b2: Union[None, bool, str]) -> bool:
    """
    pre: 0 <= which <= 4
    pre: -2**31 <= lo <= hi <= 2**31 - 1
    pre: M >= 1
    pre: not isinstance(v, (str, bytes)) or len(v) <= NS
    pre: not isinstance(v, (list, dict)) or len(v) <= 2
    pre: not isinstance(b2, str) or len(b2) <= 2
    post: _
    """
    if isinstance(v, bool) and which == 2:
        return True
    if which == 0:
        val = bv.Boolean()
        expect = isinstance(v, bool)
    elif which == 1:
        val = bv.Void()
        expect = v is None
    elif which == 2:
        val = bv.Nullable(bv.Int32(lo, hi))
        expect = v is None or (isinstance(v, int) and lo <= v <= hi)
    elif which == 3:
        val = bv.Nullable(bv.String(max_length=M))
        expect = v is None or (isinstance(v, str) and len(v) <= M)
    else:
        val = bv.Map(bv.String(min_length=1), bv.Nullable(bv.Boolean()))
        v = {'k': b1, 'kk': b2}
        expect = (b1 is None or isinstance(b1, bool)) and (b2 is None or isinstance(b2, bool))
    try:
        r = val.validate(v)
    except bv.ValidationError:
        return hx.ok(not expect)
    if which == 1:
        return hx.ok(expect and r is None)
    return hx.ok(expect and r == v)


@hx.harness(props=['C08'], targets=['stone.backends.python_rsrc.stone_validators:Map.validate'],
            bound='Map(String(min_length=m, max_length=M), Int32) with symbolic key bounds; entries under the concrete keys '
                  '"", k, kk, kkk (each present or absent; symbolic dict keys realise) with symbolic integer values',
            budget=(120, 300))
def map_keys(m: Optional[int], M: Optional[int], present: Tuple[bool, bool, bool, bool], v1: int, v2: int) -> bool:
    """
    pre: m is None or m >= 0
    pre: M is None or M >= 1
    pre: m is None or M is None or m <= M
    post: _
    """
    val = bv.Map(bv.String(min_length=m, max_length=M), bv.Int32())
    doc = {}
    for key, here, v in zip(('', 'k', 'kk', 'kkk'), present, (v1, v2, v1, v2)):
        if here:
            doc[key] = v

    def key_ok(k):
        return (m is None or len(k) >= m) and (M is None or len(k) <= M)
    expect = all(key_ok(k) for k in doc) and all(-2**31 <= x <= 2**31 - 1 for x in doc.values())
    try:
        r = val.validate(doc)
    except bv.ValidationError:
        return hx.ok(not expect)
    return hx.ok(expect and r == doc)


import datetime as _dt


def _tz(minutes):
    return _dt.timezone(_dt.timedelta(minutes=minutes))


TS_VALUES = [
    _dt.datetime(2015, 5, 12, 15, 50, 38), _dt.datetime(2015, 5, 12, 15, 50, 38, 250000),
    _dt.datetime(2015, 5, 12, 15, 50, 38, tzinfo=_dt.timezone.utc), _dt.datetime(2015, 5, 12, 15, 50, 38, tzinfo=_tz(0)),
    _dt.datetime(2015, 5, 12, 15, 50, 38, tzinfo=_tz(1)), _dt.datetime(2015, 5, 12, 15, 50, 38, tzinfo=_tz(330)),
    _dt.datetime(2015, 5, 12, 15, 50, 38, tzinfo=_tz(-480)), _dt.datetime(2015, 5, 12, 15, 50, 38, tzinfo=_tz(840)),
    _dt.date(2015, 5, 12), '2015-05-12T15:50:38Z', 1431445838, None, True,
]


@hx.harness(props=['C08'], targets=['stone.backends.python_rsrc.stone_validators:Timestamp.validate'],
            bound='Timestamp validator on a finite list of values (datetime is C code): naive, with and without microseconds, '
                  'UTC, zero offset, offsets +1 min / +5:30 / -8:00 / +14:00, a date, a string, an int, None, a bool '
                  '(finite; the solver enumerates the index)', budget=(60, 120))
def timestamp_values(k: int) -> bool:
    """
    pre: 0 <= k < len(TS_VALUES)
    post: _
    """
    v = TS_VALUES[int(k)]
    val = bv.Timestamp('%Y-%m-%dT%H:%M:%SZ')
    expect = isinstance(v, _dt.datetime) and (v.tzinfo is None or v.utcoffset() == _dt.timedelta(0))
    try:
        r = val.validate(v)
    except bv.ValidationError:
        return hx.ok(not expect)
    return hx.ok(expect and r == v and r.microsecond == v.microsecond)
