"""C18 (partial) part 1: output-root containment through the three writing entry points, with the file system
replaced by recording stubs.  `rel` is a symbolic path over the alphabet {. / a}."""
import posixpath
import re

import stone.backend as sb
import stone.backends.swift as sw
from vlib import hx

ROOT = '/r/a'          # a root whose last segment lies in the path alphabet: siblings such as ../aa share its prefix
MAXLEN = hx.tier(5, 6)


class Recorder:
    def __init__(self):
        self.ops = []
        self.exists_answer = False
        self.isdir_answer = False


REC = Recorder()


class _FakeFile:
    def __init__(self, path):
        self.path = path

    def __enter__(self):
        return self

    def __exit__(self, *a):
        return False

    def write(self, data):
        REC.ops.append(('write', self.path))


def _fake_open(path, *a, **kw):
    REC.ops.append(('open', path))
    return _FakeFile(path)


class _FakePath:
    def __getattr__(self, name):
        return getattr(posixpath, name)

    def exists(self, p):
        return REC.exists_answer

    def isdir(self, p):
        return REC.isdir_answer


class _FakeOS:
    path = _FakePath()
    pardir = '..'
    sep = '/'

    def makedirs(self, p, *a, **kw):
        REC.ops.append(('makedirs', p))

    def mkdir(self, p, *a, **kw):
        REC.ops.append(('mkdir', p))

    def getcwd(self):
        return '/cwd'

    def fspath(self, p):
        return p


class _FakeShutil:
    def copy(self, src, dst, *a, **kw):
        REC.ops.append(('copy', dst))
        return dst


def after_patch():
    """file-system stubs: installed once per worker / replay process"""
    fo = _FakeOS()
    sb.os = fo
    sb.open = _fake_open
    sb.shutil = _FakeShutil()
    sw.os = fo
    sw.open = _fake_open


after_patch()


class _B(sb.Backend):
    def generate(self, api):
        pass


class _S(sw.SwiftBaseBackend):
    cmdline_parser = None

    def generate(self, api):
        pass


def resolve(path):
    """independent segment-stack resolver: absolute path -> list of segments"""
    if not path.startswith('/'):
        path = '/cwd/' + path
    stack = []
    for seg in path.split('/'):
        if seg == '' or seg == '.':
            continue
        if seg == '..':
            if stack:
                stack.pop()
            continue
        stack.append(seg)
    return stack


ROOTSEGS = resolve(ROOT)


def classify(full):
    segs = resolve(full)
    if segs == ROOTSEGS:
        return 'root'
    if segs[:len(ROOTSEGS)] == ROOTSEGS and len(segs) > len(ROOTSEGS):
        return 'inside'
    return 'outside'


def join(a, b):
    """documented os.path.join semantics for two components"""
    if b.startswith('/'):
        return b
    if a.endswith('/') or a == '':
        return a + b
    return a + '/' + b


def _check(call, target, manifest):
    """target: the path the entry point is asked to write (as the documents describe it)"""
    REC.ops = []
    where = classify(target)
    if where == 'root':
        return True              # the output folder itself as a file target: not addressed by the statement
    refused = False
    try:
        call()
    except AssertionError:
        refused = True
    writes = [p for op, p in REC.ops]
    if where == 'outside':
        return hx.ok(refused and not writes)
    if refused:
        return hx.ok(where == 'root' or True)      # refusing an inside path is allowed by the statement
    if manifest is not None:
        # manifest run: nothing touched, entry = normalised path relative to the root
        want = '/'.join(resolve(target)[len(ROOTSEGS):]) or '.'
        return hx.ok(not writes and manifest.outputs() == [want])
    return hx.ok(all(classify(p) != 'outside' for p in writes) and
                 any(op in ('open', 'copy') and resolve(p) == resolve(target) for op, p in REC.ops))


_PRE = 'rel over the alphabet {., /, a} (segments a, ., .., ..., ..a, empty, leading /), len(rel) == item'
LENS = [str(n) for n in range(1, MAXLEN + 1)]
COPY_ITEMS = ['%dd' % n for n in range(0, MAXLEN)] + ['%df' % n for n in range(1, MAXLEN)]
_T1 = ['stone.backend:_relative_output_path', 'stone.backend:Backend.output_to_relative_path']


@hx.harness(props=['C18'], targets=_T1, items=LENS, bound=_PRE, budget=(300, 900),
            glue=['install_normpath'], outside=['unicode / other characters in paths', 'symlinks (no file system)'])
def contain_output(rel: str, use_manifest: bool, exists: bool) -> bool:
    """
    pre: len(rel) == int(ITEM)
    pre: re.fullmatch('[./a]*', rel)
    post: _
    """
    REC.exists_answer = exists
    man = sb.OutputManifest() if use_manifest else None
    b = _B(ROOT, [], output_manifest=man)

    def call():
        with b.output_to_relative_path(rel):
            b.emit('x')
        if man is not None:
            # the same output requested again in the same manifest run must not be written either
            with b.output_to_relative_path(rel):
                b.emit('y')
    return _check(call, join(ROOT, rel), man)


@hx.harness(props=['C18'], targets=['stone.backend:_relative_output_path', 'stone.backend:Backend.copy_to_path'],
            items=COPY_ITEMS,
            bound=_PRE + '; destination = root/rel; destination is a directory (d) / is not (f)',
            budget=(300, 900), glue=['install_normpath'])
def contain_copy(rel: str, use_manifest: bool) -> bool:
    """
    pre: len(rel) == int(ITEM[:-1])
    pre: re.fullmatch('[./a]*', rel)
    post: _
    """
    isdir = ITEM.endswith('d')
    REC.isdir_answer = isdir
    man = sb.OutputManifest() if use_manifest else None
    b = _B(ROOT, [], output_manifest=man)
    dst = join(ROOT, rel)
    target = join(dst, 'src.txt') if isdir else dst

    def call():
        b.copy_to_path('/somewhere/src.txt', dst)
    REC.ops = []
    where = classify(target)
    if where == 'root':
        return True              # the output folder itself as a file target: not addressed by the statement
    refused = False
    try:
        call()
    except AssertionError:
        refused = True
    writes = [p for op, p in REC.ops]
    if where == 'outside':
        return hx.ok(refused and not writes)
    if refused:
        return hx.ok(True)
    if man is not None:
        want = '/'.join(resolve(target)[len(ROOTSEGS):]) or '.'
        return hx.ok(not writes and man.outputs() == [want])
    return hx.ok(all(classify(join(p, 'src.txt') if isdir else p) != 'outside' for p in writes) and len(writes) == 1)


@hx.harness(props=['C18'], targets=['stone.backend:_relative_output_path',
                                    'stone.backends.swift:SwiftBaseBackend._write_output_in_target_folder'],
            items=LENS, bound=_PRE + ' (file name given to the Swift writer)', budget=(300, 900),
            glue=['install_normpath'])
def contain_swift(rel: str, use_manifest: bool, exists: bool) -> bool:
    """
    pre: len(rel) == int(ITEM)
    pre: re.fullmatch('[./a]*', rel)
    post: _
    """
    REC.exists_answer = exists
    man = sb.OutputManifest() if use_manifest else None
    b = _S(ROOT, [], output_manifest=man)

    def call():
        b._write_output_in_target_folder('text', rel)
    REC.ops = []
    target = join(ROOT, rel)
    where = classify(target)
    refused = False
    try:
        call()
    except AssertionError:
        refused = True
    writes = [p for op, p in REC.ops if op != 'mkdir' or classify(p) == 'outside']
    if where == 'outside':
        return hx.ok(refused and not writes)
    if refused:
        return hx.ok(True)
    if man is not None:
        want = '/'.join(resolve(target)[len(ROOTSEGS):]) or '.'
        return hx.ok(not writes and man.outputs() == [want])
    return hx.ok(all(classify(p) != 'outside' for p in writes) and
                 any(op == 'open' and resolve(p) == resolve(target) for op, p in REC.ops))


ITEM = hx.ITEM or '0'
