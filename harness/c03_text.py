"""C03 at the text level (FINITE): every single-position edit of the catalogue's own (valid) spec files -- truncation at
every character, deletion / duplication / swap of every line, indentation shift of every line, deletion of every
single character in a window -- must end in an API description or a spec error through the public entry point
specs_to_ir.  The solver only enumerates the edit position (stated as such); this is the part of C03's quantifier
("token-level edits, truncate at any token, shift indentation") that a symbolic *text* cannot reach."""
import os

from stone.frontend.exception import InvalidSpec
from stone.frontend import frontend as _frontend

from harness import fe_common as fe
from vlib import fixtures, hx

FILES = {
    'shapes': ('shapes', 'cat.stone'),
    'holes': ('holes', 'ex.stone'),
    'annotated': ('annotated', 'ann.stone'),
    'client2': ('client2', 'class.stone'),
}
CHUNK = 120


def _load(key):
    sub, name = FILES[key]
    specs = fixtures.read_specs(sub)
    idx = [i for i, (p, t) in enumerate(specs) if os.path.basename(p) == name][0]
    return specs, idx


def _edits(key, op):
    specs, idx = _load(key)
    text = specs[idx][1]
    lines = text.split('\n')
    if op in ('trunc', 'delchar'):
        return len(text)
    return len(lines)


def items():
    out = []
    ops = ['trunc', 'delline', 'dupline', 'swapline', 'indent', 'dedent']
    if hx.TIER == 'thorough':
        ops.append('delchar')
    for key in sorted(FILES):
        for op in ops:
            if hx.TIER == 'quick' and op == 'trunc' and key in ('holes', 'shapes'):
                continue                      # character-level truncation of the two largest files: thorough tier
            n = _edits(key, op)
            for start in range(0, n, CHUNK):
                out.append('%s:%s:%d' % (key, op, start))
    return out


def edited(key, op, k):
    specs, idx = _load(key)
    path, text = specs[idx]
    lines = text.split('\n')
    if op == 'trunc':
        new = text[:k]
    elif op == 'delchar':
        new = text[:k] + text[k + 1:]
    elif op == 'delline':
        new = '\n'.join(lines[:k] + lines[k + 1:])
    elif op == 'dupline':
        new = '\n'.join(lines[:k + 1] + lines[k:])
    elif op == 'swapline':
        if k + 1 >= len(lines):
            return None
        new = '\n'.join(lines[:k] + [lines[k + 1], lines[k]] + lines[k + 2:])
    elif op == 'indent':
        new = '\n'.join(lines[:k] + ['  ' + lines[k]] + lines[k + 1:])
    elif op == 'dedent':
        if not lines[k].startswith('    '):
            return None
        new = '\n'.join(lines[:k] + [lines[k][4:]] + lines[k + 1:])
    else:
        raise AssertionError(op)
    out = list(specs)
    out[idx] = (path, new)
    return out


@hx.harness(props=['C03'], targets=['stone.frontend.frontend:specs_to_ir'], items=items,
            bound='every edit position of one kind (truncate at char k / delete, duplicate, swap, indent by 2, dedent by 4 '
                  'line k / delete char k) in a window of %d positions of one catalogue spec file (finite enumeration)' % CHUNK,
            outside=['edits of more than one position', 'files other than the catalogue specs'], budget=(200, 600))
def single_edit(j: int) -> bool:
    """
    pre: 0 <= j < CHUNK
    post: _
    """
    key, op, start = hx.ITEM.split(':')
    k = None
    for cand in range(CHUNK):           # make the position concrete on each path (one fork per candidate)
        if j == cand:
            k = int(start) + cand
            break
    if k >= _edits(key, op):
        return True
    specs = edited(key, op, k)
    if specs is None:
        return True
    try:
        with fe.no_tracing():           # the edited text is concrete on every path: run the frontend at full speed
            _frontend.specs_to_ir(specs)
    except InvalidSpec as e:
        # the spec error names one of the input paths (or none) and carries a message
        paths = [p for p, _ in specs]
        return hx.ok(bool(str(e.msg)) and (e.path is None or e.path in paths))
    return hx.ok(True)
