"""C11, layout clause at the text level (FINITE): every single-position layout edit of the catalogue's own spec files
-- insert an empty line / a whitespace-only line (1, 4, 8 spaces) / a comment line (column 0, indentation of the previous
or of the next line) at every line boundary, append trailing spaces / a trailing comment to every line, delete every
blank or comment-only line -- must leave the canonical API signature (vlib/apisig.py) unchanged, through the public entry
point specs_to_ir.  The solver only enumerates the edit position (stated as such): the ply master regex makes a
symbolic *text* unreachable, the dent logic of the lexer is covered symbolically by harness/c11_layout.py."""
import os

from stone.frontend import frontend as _frontend
from stone.frontend.exception import InvalidSpec

from harness import fe_common as fe
from vlib import apisig, fixtures, hx

FILES = {
    'shapes': ('shapes', 'cat.stone'),
    'shapes2': ('shapes', 'cat2.stone'),
    'holes': ('holes', 'ex.stone'),
    'annotated': ('annotated', 'ann.stone'),
    'client2': ('client2', 'class.stone'),
    'names': ('names', 'names.stone'),
}
OPS = ['blank', 'sp1', 'sp4', 'sp8', 'tab', 'comment0', 'commentP', 'commentN', 'commentT', 'trail', 'trailt', 'trailc',
       'traildoc', 'delete']
CHUNK = 120


def _load(key):
    sub, name = FILES[key]
    specs = fixtures.read_specs(sub)
    idx = [i for i, (p, t) in enumerate(specs) if os.path.basename(p) == name][0]
    return specs, idx


def _string_state(lines):
    """per line: is the END of the line inside a string literal?  ('#' outside a string starts a comment)"""
    inside, out = False, []
    for line in lines:
        i = 0
        while i < len(line):
            c = line[i]
            if inside:
                if c == '\\':
                    i += 1
                elif c == '"':
                    inside = False
            elif c == '"':
                inside = True
            elif c == '#':
                break
            i += 1
        out.append(inside)
    return out


_CACHE = {}


def _info(key):
    if key not in _CACHE:
        specs, idx = _load(key)
        lines = specs[idx][1].split('\n')
        _CACHE[key] = (specs, idx, lines, _string_state(lines), apisig.signature(_frontend.specs_to_ir(list(specs))))
    return _CACHE[key]


def _indent_of(line):
    return len(line) - len(line.lstrip(' '))


def edited(key, op, k):
    """the spec list with one layout edit at line / boundary k, or None when the edit does not apply there"""
    specs, idx, lines, in_string, _ = _info(key)
    if k > len(lines) or (k == len(lines) and op in ('trail', 'trailt', 'trailc', 'traildoc', 'delete')):
        return None
    before_in_string = in_string[k - 1] if k > 0 else False
    new = None
    if op in ('blank', 'sp1', 'sp4', 'sp8', 'tab', 'comment0', 'commentP', 'commentN', 'commentT'):
        if before_in_string:
            return None                        # the boundary lies inside a multi-line string
        if op == 'blank':
            ins = ''
        elif op.startswith('sp'):
            ins = ' ' * int(op[2:])
        elif op == 'tab':
            ins = '\t'
        elif op == 'commentT':
            ins = '\t# c'
        elif op == 'comment0':
            ins = '# c'
        elif op == 'commentP':
            prev = [l for l in lines[:k] if l.strip()]
            if not prev:
                return None
            ins = ' ' * _indent_of(prev[-1]) + '# "c'
        else:
            nxt = [l for l in lines[k:] if l.strip()]
            if not nxt:
                return None
            ins = ' ' * _indent_of(nxt[0]) + '#c'
        new = lines[:k] + [ins] + lines[k:]
    elif op in ('trail', 'trailt', 'trailc'):
        if in_string[k]:
            return None
        if op == 'trailc' and not lines[k].strip():
            return None
        new = lines[:k] + [lines[k] + {'trail': '  ', 'trailt': '\t', 'trailc': ' # c'}[op]] + lines[k + 1:]
    elif op == 'traildoc':
        # trailing blanks on a line that ends INSIDE a multi-line doc string (all such strings of the catalogue are docs)
        if not in_string[k]:
            return None
        new = lines[:k] + [lines[k] + '  '] + lines[k + 1:]
    elif op == 'delete':
        if before_in_string or in_string[k]:
            return None
        s = lines[k].strip()
        if s and not s.startswith('#'):
            return None
        new = lines[:k] + lines[k + 1:]
    else:
        raise AssertionError(op)
    out = list(specs)
    out[idx] = (specs[idx][0], '\n'.join(new))
    return out


def items():
    out = []
    for key in sorted(FILES):
        n = len(_info(key)[2]) + 1
        for op in OPS:
            for start in range(0, n, CHUNK):
                # only windows in which the edit applies somewhere (e.g. `traildoc` needs a multi-line doc string)
                if any(edited(key, op, k) is not None for k in range(start, min(start + CHUNK, n))):
                    out.append('%s:%s:%d' % (key, op, start))
    return out


@hx.harness(props=['C11'], targets=['stone.frontend.frontend:specs_to_ir'], items=items,
            bound='every position of one layout edit (empty line / line of 1, 4, 8 spaces / a tab / comment line at column 0, at '
                  'the previous or the next line\'s indentation, after a tab, inserted at boundary k; trailing spaces / tab / '
                  'comment appended to line k; trailing spaces inside a multi-line doc string; blank or comment-only line k deleted) in a window of %d positions of one catalogue '
                  'spec file (finite enumeration); boundaries inside multi-line strings excluded' % CHUNK,
            outside=['several edits at once', 'files other than the catalogue specs', 'tabs as indentation of content lines',
                     'ordering / file-splitting / stdin clauses of C11 (structural)'], budget=(200, 600))
def layout_edit(j: int) -> bool:
    """
    pre: 0 <= j < CHUNK
    post: _
    """
    key, op, start = hx.ITEM.split(':')
    k = None
    for cand in range(CHUNK):           # make the position concrete on each path (one fork per candidate)
        if j == cand:
            k = int(start) + cand
            break
    with fe.no_tracing():               # the edited text is concrete on every path: run the frontend at full speed
        specs = edited(key, op, k)
        if specs is None:
            return True
        try:
            api = _frontend.specs_to_ir(specs)
        except InvalidSpec:
            good = False
        else:
            good = apisig.signature(api) == _info(key)[4]
    return hx.ok(good)


def explain(fname, args):
    key, op, start = hx.ITEM.split(':')
    k = int(start) + int(args['j'])
    specs = edited(key, op, k)
    _, idx, lines, _, sig = _info(key)
    ctx = '\n'.join(specs[idx][1].split('\n')[max(0, k - 2):k + 3])
    try:
        api = _frontend.specs_to_ir(specs)
    except InvalidSpec as e:
        return 'edit %s at line %d of %s -> InvalidSpec(%s, line %s); text around the edit:\n%s' % (op, k, key, e.msg, e.lineno, ctx)
    return 'edit %s at line %d of %s changes the API: %s; text around the edit:\n%s' % (
        op, k, key, apisig.diff(sig, apisig.signature(api)), ctx)
