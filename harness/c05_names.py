"""C05 on a spec whose field / tag names are legal identifiers but not lower_snake_case: the wire keys must be the
declared names.  On the pinned tree the Python runtime emits the Python-ised names instead (known finding)."""
from typing import Tuple

from stone.backends.python_rsrc import stone_serializers as ss

from refmodel import wire
from vlib import fixtures, hx, valgen

API = fixtures.api_for('names')
MODS = {'names': fixtures.module('namesgen', 'names')}
I4 = Tuple[int, int, int, int]
B8 = Tuple[bool, bool, bool, bool, bool, bool, bool, bool]


@hx.harness(props=['C05'], targets=['stone.backends.python_rsrc.stone_serializers:json_compat_obj_encode'],
            items=['Camel', 'CamelU'],
            bound='struct / union whose field and tag names are camelCase or upper case; all ints, every subset of optional '
                  'fields, every tag', budget=(60, 200))
def declared_names(i: I4, b: B8) -> bool:
    """
    post: _
    """
    dt = API.namespaces['names'].data_type_by_name[hx.ITEM]
    validator = getattr(MODS['names'], hx.ITEM + '_validator')
    try:
        val, sh = valgen.Gen(MODS, hx.Pool(ints=i, bools=b), catch_all=True).build(dt)
    except hx.Skip:
        return True
    j = ss.json_compat_obj_encode(validator, val)
    return hx.ok(dict(j) == wire.ref_encode(dt, sh))
