"""C11 (layout clause, partial) and the indentation rule of C01: the regex-free dent logic of the lexer driven as
units on a ply token whose lexdata is built from symbolic pieces.

Layout facts asserted (lang_ref.rst: comments, blank lines; 4-space indentation; line continuation inside
parentheses indents by one level):
  * a blank, space-only or comment-only next line never produces INDENT/DEDENT and never changes the level
  * otherwise an indent that is not a multiple of 4 is reported, and the number of INDENT/DEDENT tokens equals the
    change of level
  * a full-line comment yields no NEWLINE token, a trailing comment exactly one
  * inside parentheses a continuation line is accepted iff it is indented by exactly one more level
  * at end of input exactly `level` DEDENT tokens are produced
"""
import re
import types

from stone.frontend import lexer as lx
from vlib import hx

MAXN = hx.tier(9, 17)
MAXC = hx.tier(3, 5)
LEVELS = [str(k) for k in range(MAXC + 1)]
CUR = int((hx.ITEM or '0').split('/')[0])
DENT_ITEMS = ['%s/%d/%s' % (lv, bl, e) for lv in LEVELS for bl in (1, 2) for e in ('eof', 'more')]


def _newline_token(data, pos, count=1):
    fake = types.SimpleNamespace(lexdata=data, lineno=1, lexpos=pos)
    tok = lx._create_token('NEWLINE', '\n' * count, 1, pos)
    tok.lexer = fake
    return tok


def _classify(n, tail):
    """reference: what the next line `' ' * n + tail` is"""
    stripped = tail.lstrip(' ')
    extra = len(tail) - len(stripped)
    if stripped == '':
        return 'blank', None
    if stripped[0] == '#':
        return 'comment', None
    return 'content', n + extra


_T = ['stone.frontend.lexer:Lexer._get_next_line_indent_delta']
_B = ('current level 0..%d, 0..%d leading spaces, line tail of <= 2 chars over {a, #, space}, line followed by more text '
      'or by end of input' % (MAXC, MAXN))
_OUT = ['tokenisation itself (ply master regex)', 'tabs', 'ordering / file-splitting / stdin clauses of C11 (structural)']


@hx.harness(props=['C11', 'C01'], targets=_T + ['stone.frontend.lexer:Lexer._create_tokens_for_next_line_dent'],
            items=DENT_ITEMS, bound=_B + '; after 1 or 2 newlines', outside=_OUT, budget=(200, 600))
def next_line_dent(n: int, tail: str) -> bool:
    """
    pre: 0 <= n <= MAXN
    pre: len(tail) <= 2 and re.fullmatch('[a# ]*', tail)
    post: _
    """
    cur = CUR
    blanks = int(hx.ITEM.split('/')[1])
    at_eof = hx.ITEM.endswith('eof')
    lexer = lx.Lexer()
    lexer.cur_indent = cur
    lexer.errors = []
    line = ' ' * n + tail
    data = 'x' + '\n' * blanks + line + ('' if at_eof else '\nrest\n')
    tok = _newline_token(data, 1, blanks)
    kind, indent = _classify(n, tail)
    res = lexer._create_tokens_for_next_line_dent(tok)
    if line == '' or kind != 'content':
        # blank, space-only and comment-only lines are invisible to indentation
        return hx.ok(res is None and lexer.cur_indent == cur and lexer.errors == [])
    if indent % 4 != 0:
        return hx.ok(res is None and lexer.cur_indent == cur and len(lexer.errors) == 1 and
                     lexer.errors[0][0] == 'Indent is not divisible by 4.')
    delta = indent // 4 - cur
    if delta == 0:
        return hx.ok(res is None and lexer.cur_indent == cur and lexer.errors == [])
    want = 'INDENT' if delta > 0 else 'DEDENT'
    return hx.ok(res is not None and len(res.tokens) == abs(delta) and all(t.type == want for t in res.tokens)
                 and lexer.cur_indent == cur + delta and lexer.errors == [])


@hx.harness(props=['C11', 'C01'], targets=_T + ['stone.frontend.lexer:Lexer._check_for_indent'],
            items=LEVELS, bound=_B + ' (continuation line inside parentheses)', outside=_OUT, budget=(200, 600))
def continuation(n: int, tail: str, at_eof: bool) -> bool:
    """
    pre: 0 <= n <= MAXN
    pre: len(tail) <= 2 and re.fullmatch('[a# ]*', tail)
    post: _
    """
    cur = CUR
    lexer = lx.Lexer()
    lexer.cur_indent = cur
    lexer.errors = []
    line = ' ' * n + tail
    data = 'f(\n' + line + ('' if at_eof else '\n)\n')
    tok = _newline_token(data, 2)
    kind, indent = _classify(n, tail)
    lexer._check_for_indent(tok)
    if line == '' or kind != 'content':
        return hx.ok(lexer.errors == [] and lexer.cur_indent == cur)
    if indent % 4 != 0:
        # reported as a bad indent (possibly also as a bad continuation): some error, level untouched
        return hx.ok(len(lexer.errors) >= 1 and lexer.cur_indent == cur)
    ok_cont = (indent // 4 - cur) == 1
    return hx.ok((lexer.errors == []) == ok_cont and lexer.cur_indent == cur)


@hx.harness(props=['C11'], targets=['stone.frontend.lexer:Lexer.t_INITIAL_comment'],
            items=['%s/%d' % (lv, nl) for lv in LEVELS for nl in (1, 2, 4)],
            bound='comment of <= 2 chars over {a, #, space} after 0..4 spaces following either a newline (full-line '
                  'comment) or a token character (trailing comment), followed by 1, 2 or 4 newlines; next line: 0..%d spaces + content; level 0..%d'
                  % (MAXN, MAXC), outside=_OUT, budget=(200, 600))
def comment_newlines(pad: int, body: str, trailing: bool, n: int) -> bool:
    """
    pre: 0 <= pad <= 4
    pre: 0 <= n <= MAXN and n % 4 == 0
    pre: len(body) <= 2 and re.fullmatch('[a# ]*', body)
    post: _
    """
    cur = CUR
    lexer = lx.Lexer()
    lexer.cur_indent = cur
    lexer.errors = []
    head = ('x' if trailing else 'x\n') + ' ' * pad
    nl = int(hx.ITEM.split('/')[1])
    comment = '#' + body + '\n' * nl           # the comment token swallows the blank lines that follow it
    data = head + comment + ' ' * n + 'y\n'
    fake = types.SimpleNamespace(lexdata=data, lineno=1)
    tok = lx._create_token('comment', comment, 1, len(head))
    tok.lexer = fake
    res = lexer.t_INITIAL_comment(tok)
    delta = n // 4 - cur
    if res is None:
        toks = []
    elif isinstance(res, lx.MultiToken):
        toks = [t.type for t in res.tokens]
    else:
        toks = [res.type]
    dents = (['INDENT'] if delta > 0 else ['DEDENT']) * abs(delta)
    want = (['NEWLINE'] if trailing else []) + dents
    return hx.ok(toks == want and lexer.cur_indent == cur + delta)


class _FakeLex:
    def __init__(self):
        self.lineno = 7
        self.lexpos = 42

    def token(self):
        return None


@hx.harness(props=['C11'], targets=['stone.frontend.lexer:Lexer.token'],
            bound='end of input at level 0..%d after a NEWLINE / other / no last token' % (MAXC + 3), outside=_OUT,
            budget=(100, 300))
def eof_dedents(cur: int, last: int) -> bool:
    """
    pre: 0 <= cur <= MAXC + 3
    pre: 0 <= last <= 2
    post: _
    """
    lexer = lx.Lexer()
    lexer.lex = _FakeLex()
    lexer.tokens_queue = []
    lexer.cur_indent = cur
    lexer.last_token = [None, lx._create_token('NEWLINE', '\n', 1, 0), lx._create_token('ID', 'a', 1, 0)][last]
    out = []
    for _ in range(cur + 4):
        t = lexer.token()
        if t is None:
            break
        out.append(t.type)
    want = (['NEWLINE'] if (last == 2 and cur > 0) else []) + ['DEDENT'] * cur
    return hx.ok(out == want and lexer.cur_indent == 0)


# ---------------------------------------------------------------- parenthesis state (continuation mode)
from stone._vendor.ply import lex as _lex
_PLY = _lex.lex(module=lx.Lexer())         # built once at import (concretely); harness paths work on clones


def _ply_lexer():
    c = _PLY.clone()            # clone() is a shallow copy: give the clone its own state stack
    c.lexstatestack = []
    c.begin('INITIAL')
    return c


B6 = __import__('typing').Tuple[bool, bool, bool, bool, bool, bool]


@hx.harness(props=['C11', 'C03'], targets=['stone.frontend.lexer:Lexer.t_LPAR', 'stone.frontend.lexer:Lexer.t_RPAR'],
            bound='every sequence of up to 6 parentheses (balanced or not) through the t_LPAR / t_RPAR actions on a real '
                  'ply lexer object', outside=_OUT, budget=(100, 300))
def paren_state(seq: B6, n: int) -> bool:
    """
    pre: 0 <= n <= 6
    post: _
    """
    lexer = lx.Lexer()
    ply = _ply_lexer()
    depth = 0
    good = True
    for k in range(n):
        tok = lx._create_token('LPAR' if seq[k] else 'RPAR', '(' if seq[k] else ')', 1, k)
        tok.lexer = ply
        if seq[k]:
            lexer.t_LPAR(tok)
            depth += 1
        else:
            lexer.t_RPAR(tok)               # must never raise, also when unbalanced
            depth = max(0, depth - 1)
        # line breaks are ignored (continuation mode) exactly while some '(' is open
        good = good and ((ply.current_state() == 'WSIGNORE') == (depth > 0))
    if hx.ASPECT == 'C03':
        return hx.ok(True)          # C03 only asks that the actions never raise
    return hx.ok(good)
