"""Shared machinery of the frontend harnesses (C01/C02/C03/C10): spec templates are parsed by the real parser
(concretely, at import time), a harness substitutes symbolic literal values into the AST, and the real
IRGenerator (all semantic passes) runs on it.  When a harness is executed concretely (replay) every verdict is
additionally confirmed on *text* through the public API specs_to_ir, so that a counterexample that cannot be
written in Stone syntax is never reported."""
import copy
import math

from stone.frontend.exception import InvalidSpec
from stone.frontend.frontend import specs_to_ir
from stone.frontend.ir_generator import IRGenerator
from stone.frontend.lexer import NullToken
from stone.frontend.parser import ParserFactory
from stone.frontend import ast as A

from vlib import hx

_PF = ParserFactory(debug=False)


class NotExpressible(Exception):
    """the AST value cannot be written as Stone text (=> not reachable through the public API)"""
    verif_unreachable = True


def parse(text, path='t.stone'):
    parser = _PF.get_parser()
    tree = parser.parse(text, path)
    errs = parser.get_errors() if parser.got_errors_parsing() else []
    parser.errors = []
    parser.lexer.errors = []
    assert not errs, (path, errs)
    return tree


def tracing():
    try:
        from crosshair.tracers import is_tracing
        return is_tracing()
    except Exception:
        return False


class _Null:
    def __enter__(self):
        return self

    def __exit__(self, *a):
        return False


def no_tracing():
    if tracing():
        from crosshair.tracers import NoTracing
        return NoTracing()
    return _Null()


def clone(asts):
    with no_tracing():
        return copy.deepcopy(asts)


def run_ir(asts):
    """('ok', api) | ('invalid', exc); any other exception propagates (that is C03's subject)"""
    try:
        return 'ok', IRGenerator(asts, '0.1b1').generate_IR()
    except InvalidSpec as e:
        return 'invalid', e


def run_text(specs):
    try:
        return 'ok', specs_to_ir(specs)
    except InvalidSpec as e:
        return 'invalid', e


# ---------------------------------------------------------------- literals <-> text
def lit(v):
    """Stone text of a primitive literal value as the parser would deliver it (None = null)"""
    if v is None or v is NullToken:
        return 'null'
    if isinstance(v, bool):
        return 'true' if v else 'false'
    if isinstance(v, int):
        return str(v)
    if isinstance(v, float):
        if math.isnan(v) or math.isinf(v):
            raise NotExpressible('nan/inf literal')
        r = repr(v)
        if 'e' in r:
            mant, exp = r.split('e')
            if '.' not in mant:
                mant += '.0'
            r = mant + 'e' + str(int(exp))
        if float(r) != v:
            raise NotExpressible('float literal %r' % v)
        return r
    if isinstance(v, str):
        return string_lit(v)
    raise NotExpressible(repr(v))


def string_lit(s, indent_level=1):
    """a string literal whose lexed value is exactly s, or NotExpressible"""
    out = []
    for c in s:
        if c == '\\':
            out.append('\\\\')
        elif c == '"':
            out.append('\\"')
        elif c == '\n':
            out.append('\\n')
        elif c == '\t':
            out.append('\\t')
        else:
            out.append(c)
    # the lexer post-processes the value: splitlines() + removal of the current indentation + join('\n')
    lines = s.splitlines()
    ind = ' ' * (4 * indent_level)
    if '\n'.join(l.replace(ind, '', 1) for l in lines) != s:
        raise NotExpressible('string %r is altered by the lexer' % s)
    return '"' + ''.join(out) + '"'


def to_ast_literal(v):
    """value as it sits in the AST for a type argument (null is the NullToken there)"""
    return NullToken if v is None else v


class TextMismatch(Exception):
    verif_unreachable = True


def confirm_on_text(ast_outcome, specs_text):
    """concrete runs only: the same spec as text must end the same way through specs_to_ir.
    ast_outcome: 'ok' | 'invalid' | 'escape:<ExcType>'"""
    try:
        kind, _ = run_text(specs_text)
    except Exception as e:
        kind = 'escape:' + type(e).__name__
    if kind != ast_outcome:
        raise TextMismatch('AST run ended %s, text run ended %s for %r' % (ast_outcome, kind, specs_text))


def decide(asts, text_fn, oracle, fidelity=None, runtime=None):
    """Run the real semantic stage on the AST and judge it for the property named by hx.ASPECT.
    oracle: 'accept' | 'reject' | 'unspec' (language rules);  fidelity(api) -> bool (C02);
    runtime(api) -> bool (C10: what the compiler accepted is valid for the generated runtime)."""
    aspect = hx.ASPECT
    try:
        kind, res = run_ir(asts)
    except Exception as e:
        if aspect != 'C03':
            return True                      # stray exceptions are C03's business
        if not tracing():
            confirm_on_text('escape:' + type(e).__name__, text_fn())
        raise
    if aspect == 'C03':
        return hx.ok(True)
    if aspect == 'C01':
        good = not ((oracle == 'accept' and kind != 'ok') or (oracle == 'reject' and kind != 'invalid'))
    elif aspect == 'C02':
        if kind != 'ok' or fidelity is None:
            return True
        good = fidelity(res)
    elif aspect == 'C10':
        if kind != 'ok' or runtime is None:
            return True
        good = runtime(res)
    else:
        raise AssertionError('unknown aspect %r' % aspect)
    if not good and not tracing():
        confirm_on_text(kind, text_fn())
    return hx.ok(good)
