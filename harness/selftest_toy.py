"""Engine sanity harnesses used by the self-test: a right toy validator must be confirmed, a wrong one refuted."""
from vlib import hx


def _toy_validate(lo, hi, v, strict_upper):
    if strict_upper:
        return lo <= v < hi          # wrong: excludes hi
    return lo <= v <= hi


@hx.harness(props=['SELFTEST'], targets=['harness.selftest_toy:_toy_validate'], bound='all ints', budget=(30, 30))
def toy_right(lo: int, hi: int, v: int) -> bool:
    """
    post: _
    """
    return hx.ok(_toy_validate(lo, hi, v, False) == (lo <= v and v <= hi))


@hx.harness(props=['SELFTEST'], targets=['harness.selftest_toy:_toy_validate'], bound='all ints', budget=(30, 30))
def toy_wrong(lo: int, hi: int, v: int) -> bool:
    """
    post: _
    """
    return hx.ok(_toy_validate(lo, hi, v, True) == (lo <= v and v <= hi))
