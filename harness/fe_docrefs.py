"""Frontend slot (e): doc references  :<tag>:`<val>`  in type, field and route docs.

Exhaustive harnesses compose <val> from a finite domain of name parts and separators (the solver only enumerates
the domain -- stated as such); a bug-hunting harness uses a fully symbolic <val> (dict look-ups realise it, so it
can refute but not discharge).

Rules (lang_ref.rst "References"): supported tags are route, type, field, link, val; route: name of a route
(optionally name:version, optionally namespace-qualified); type: a struct or union; field: field of the documented
type, or TypeName.field_name; link: "<title...> <uri>"; val: null, true, false, integers, floats, strings.
"""
from stone.frontend import ast as A

from harness import fe_common as fe
from vlib import hx

NS2 = '''namespace ns2

struct X
    xf Int32

route xr (X, Void, Void)
'''

TEMPLATE = '''namespace ns

import ns2

alias AS = S
alias AP = String

struct P
    pf Int32

struct S extends P
    "DOC"
    f Int32
        "FIELDDOC"

union U
    t Int32

route r (S, Void, Void)
    "ROUTEDOC"

route r:2 (S, Void, Void)
'''

BASE = [fe.parse(NS2, 'ns2.stone'), fe.parse(TEMPLATE, 't.stone')]
assert fe.run_text([('ns2.stone', NS2), ('t.stone', TEMPLATE)])[0] == 'ok'

TAGS = ['field', 'route', 'type', 'link', 'val', 'zz']
PARTS = hx.tier(['S', 'f', 'pf', 'r', 'AS', 'AP', 'ns2', 'X', 'zz', '2'],
                ['S', 'f', 'pf', 'P', 'U', 't', 'r', 'AS', 'AP', 'ns2', 'X', 'xf', 'xr', 'zz', '2', 'String', 'other'])
SEPS = hx.tier(['.', ':', ' '], ['.', ':', ' ', '-'])
SITES = ['type', 'field', 'route']

FIELDS = {'S': ('f', 'pf'), 'P': ('pf',), 'U': ('t', 'other'), 'AS': ('f', 'pf'), 'ns2.X': ('xf',)}   # inherited fields count
ROUTES = {'r': (1, 2), 'ns2.xr': (1,)}
TYPES = ('S', 'P', 'U', 'ns2.X')


def ref_rule(site, tag, val):
    """'accept' | 'reject' | 'unspec' from the documentation rules over the fixed template"""
    if tag not in ('field', 'route', 'type', 'link', 'val'):
        return 'reject'
    if tag == 'field':
        if '.' not in val:
            if site == 'route':
                return 'reject'               # a route has no fields to refer to
            return 'accept' if val in FIELDS['S'] else 'reject'
        tname, fname = val.rsplit('.', 1)
        if tname in FIELDS:
            return 'accept' if fname in FIELDS[tname] else 'reject'
        return 'reject'
    if tag == 'route':
        name, _, ver = val.partition(':')
        if name not in ROUTES:
            return 'reject'
        if not _:
            return 'accept'
        if not ver.isdigit() and not (ver[:1] == '-' and ver[1:].isdigit()):
            return 'reject'
        return 'accept' if int(ver) in ROUTES[name] else 'reject'
    if tag == 'type':
        if val in TYPES:
            return 'accept'
        return 'reject'
    if tag == 'link':
        k = val.rfind(' ')
        if k < 1 or k >= len(val) - 1:
            return 'reject'                   # needs a title and a uri
        return 'accept' if k > 1 else 'unspec'
    if tag == 'val':
        if val in ('null', 'true', 'false'):
            return 'accept'
        if val.lstrip('-').isdigit() and val.count('-') <= 1 and (val[0] != '-' or len(val) > 1) and '-' not in val[1:]:
            return 'accept'
        return 'unspec'
    return 'unspec'


def _asts(site, doc):
    asts = fe.clone(BASE)
    main = asts[1]
    s = [n for n in main if getattr(n, 'name', None) == 'S'][0]
    r = [n for n in main if isinstance(n, A.AstRouteDef) and n.version == 1][0]
    if site == 'type':
        s.doc = doc
    elif site == 'field':
        s.fields[0].doc = doc
    else:
        r.doc = doc
    return asts


def _text(site, doc):
    marker = {'type': 'DOC', 'field': 'FIELDDOC', 'route': 'ROUTEDOC'}[site]
    lit = fe.string_lit(doc, indent_level={'type': 1, 'field': 2, 'route': 1}[site])
    return [('ns2.stone', NS2), ('t.stone', TEMPLATE.replace('"%s"' % marker, lit))]


_TG = ['stone.frontend.ir_generator:IRGenerator._validate_doc_refs_helper']
_OUT = ['reference values outside the composed domain (covered by the bug-hunting harness only)',
        'docs with several references', 'syntax-level errors']


SHAPES = ['1'] + ['2%d' % k for k in range(len(SEPS))] + ['3']     # number of parts (and, for two parts, the separator)


def _items():
    return ['%s/%s/%s' % (site, tag, shape) for site in SITES for tag in TAGS for shape in SHAPES]


@hx.harness(props=['C01', 'C03'], targets=_TG, items=_items,
            bound='doc = ":<tag>:`<val>`" at one site (type doc / field doc / route doc); val = p1 [sep p2 [sep p3]] with '
                  'parts from %s and separators from %s (three parts only after the imported namespace name)'
                  % (PARTS, SEPS), outside=_OUT, budget=(200, 600))
def composed_ref(a: int, s1: int, b: int, s2: int, c: int, n: int) -> bool:
    """
    pre: 0 <= a < len(PARTS) and 0 <= b < len(PARTS) and 0 <= c < len(PARTS)
    pre: 0 <= s1 < len(SEPS) and 0 <= s2 < len(SEPS)
    pre: 1 <= n <= 3
    pre: n < 3 or (PARTS[a] == 'ns2' and s1 == 0 and s2 == 0)
    post: _
    """
    site, tag, shape = hx.ITEM.split('/')
    if n != int(shape[0]) or (n == 2 and s1 != int(shape[1])):
        return True                     # another instance explores this shape
    val = PARTS[a]
    if n >= 2:
        val += SEPS[s1] + PARTS[b]
    if n >= 3:
        val += SEPS[s2] + PARTS[c]
    doc = ':%s:`%s`' % (tag, val)
    return fe.decide(_asts(site, doc), lambda: _text(site, doc), ref_rule(site, tag, val))


@hx.harness(props=['C03'], targets=_TG, items=lambda: ['%s/%s' % (site, tag) for site in SITES for tag in TAGS],
            bound='bug hunting: fully symbolic reference value (<= 5 chars over {S,f,r,a,2,.,:,space,-}); dictionary '
                  'look-ups realise the value, so the search cannot be exhaustive', outside=_OUT, budget=(30, 200),
            hunt=True)
def symbolic_ref(val: str) -> bool:
    """
    pre: len(val) <= 5
    post: _
    """
    import re
    if re.fullmatch('[Sfra2.: -]*', val) is None:
        return True
    site, tag = hx.ITEM.split('/')
    doc = ':%s:`%s`' % (tag, val)
    return fe.decide(_asts(site, doc), lambda: _text(site, doc), 'unspec')
