"""C10 part 4: the emission kernel of defaults in the Python backends -- a default literal is emitted as ONE line of
Python source that evaluates back to the literal (so that reading an unset defaulted field returns exactly the
declared default)."""
import re
from typing import Union

from stone.backends import python_client, python_types
from vlib import hx

V = Union[None, bool, int, float, str]
NSTR = hx.tier(3, 4)

_TG = ['stone.backends.python_helpers:fmt_obj']


def _check(d):
    ok = True
    for gen in (python_types.PythonTypesBackend._generate_python_value,
                python_client.PythonClientBackend._generate_python_value):
        text = gen(None, None, d)
        if '\n' in text or '\r' in text:
            return False
        back = eval(text, {})
        ok = ok and back == d and type(back) is type(d)
    return ok


@hx.harness(props=['C10'], targets=_TG,
            bound='string default <= %d chars over {a, space, tab, newline, quote, double quote, backslash}; the text is '
                  'formatted by pprint/repr, which realises it: bug hunting, not exhaustive' % NSTR,
            budget=(60, 300), hunt=True)
def emit_string(d: str) -> bool:
    """
    pre: len(d) <= NSTR
    post: _
    """
    if re.fullmatch('[a \\t\\n\'"\\\\]*', d) is None:
        return True
    return hx.ok(_check(d))


@hx.harness(props=['C10'], targets=_TG,
            bound='numeric / boolean / null default: any int, finite float; formatting realises the value: bug hunting',
            budget=(30, 120), hunt=True)
def emit_number(d: Union[None, bool, int, float]) -> bool:
    """
    pre: not isinstance(d, float) or (d == d and abs(d) < 1e300)
    post: _
    """
    return hx.ok(_check(d))
