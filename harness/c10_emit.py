"""C10 part 4: the emission kernel of defaults in the Python backends -- a default literal is emitted as ONE line of
Python source that evaluates back to the literal (so that reading an unset defaulted field returns exactly the
declared default)."""
import re
from typing import Union

from stone.backends import python_client, python_types
from vlib import hx

V = Union[None, bool, int, float, str]
NSTR = hx.tier(3, 4)

_TG = ['stone.backends.python_helpers:fmt_obj']


def _check(d):
    ok = True
    for gen in (python_types.PythonTypesBackend._generate_python_value,
                python_client.PythonClientBackend._generate_python_value):
        text = gen(None, None, d)
        if '\n' in text or '\r' in text:
            return False
        back = eval(text, {})
        ok = ok and back == d and type(back) is type(d)
    return ok


@hx.harness(props=['C10'], targets=_TG,
            bound='string default <= %d chars over {a, space, tab, newline, quote, double quote, backslash}; the text is '
                  'formatted by pprint/repr, which realises it: bug hunting, not exhaustive' % NSTR,
            budget=(60, 300), hunt=True)
def emit_string(d: str) -> bool:
    """
    pre: len(d) <= NSTR
    post: _
    """
    if re.fullmatch('[a \\t\\n\'"\\\\]*', d) is None:
        return True
    return hx.ok(_check(d))


@hx.harness(props=['C10'], targets=_TG,
            bound='numeric / boolean / null default: any int, finite float; formatting realises the value: bug hunting',
            budget=(30, 120), hunt=True)
def emit_number(d: Union[None, bool, int, float]) -> bool:
    """
    pre: not isinstance(d, float) or (d == d and abs(d) < 1e300)
    post: _
    """
    return hx.ok(_check(d))


# ---------------------------------------------------------------- reading back declared defaults (FINITE)
def _default_sites():
    from stone.ir import is_struct_type
    from vlib import fixtures
    out = []
    for group, pkg, nss in (('shapes', 'catgen', ('cat', 'cat2')), ('client2', 'cl2gen', ('class',)), ('holes', 'exgen', ('ex',))):
        api = fixtures.api_for(group)
        for nsname in nss:
            for dt in api.namespaces[nsname].data_types:
                if is_struct_type(dt):
                    for f in dt.fields:
                        if f.has_default:
                            out.append((group, pkg, nsname, dt.name, f.name))
    return out


try:
    SITES = _default_sites()
except Exception:          # fixtures of another property's run: the harness below is then not instantiated
    SITES = []


def _read_default(k):
    from stone.backends.python_helpers import fmt_class, fmt_var
    from stone.ir import TagRef
    from vlib import fixtures
    group, pkg, nsname, tname, fname = SITES[k]
    api = fixtures.api_for(group)
    f = [x for x in api.namespaces[nsname].data_type_by_name[tname].fields if x.name == fname][0]
    modname = {'class': 'class_'}.get(nsname, nsname)
    cls = getattr(fixtures.module(pkg, modname), fmt_class(tname))
    got = getattr(cls(), fmt_var(fname))
    want = f.default
    if isinstance(want, TagRef):
        umod = fixtures.module(pkg, {'class': 'class_'}.get(want.union_data_type.namespace.name,
                                                             want.union_data_type.namespace.name))
        ucls = getattr(umod, fmt_class(want.union_data_type.name))
        # an inherited tag is the parent union's ready instance; parent unions are valid where a child is expected (C08)
        return issubclass(ucls, type(got)) and hasattr(got, '_tag') and got._tag == want.tag_name and got._value is None
    return got == want and type(got) is type(want)


@hx.harness(props=['C10'], targets=['harness.c10_emit:_read_default'],
            bound='every defaulted struct field of the shapes, client2 and holes catalogues (finite): reading the field of a '
                  'fresh instance of the generated class returns exactly the declared default (same value and kind; a ready '
                  'union instance for a tag default, also across namespaces and for unions declared after the struct)',
            budget=(100, 300))
def default_readback(k: int) -> bool:
    """
    pre: 0 <= k < len(SITES)
    post: _
    """
    return hx.ok(_read_default(int(k)))
