"""Frontend, rule x site table (FINITE): one small spec per (language rule, site), each with the verdict the language
reference prescribes.  The solver only enumerates the case index of a group (stated as such); the real parser and the
real IRGenerator decide every case.  This widens the structural bound of C01 / C03 beyond the literal slots: reference
resolution, inheritance legality, enumerated subtypes, union structure, nullability, routes, imports, annotations,
examples, patches, name clashes."""
from harness import fe_common as fe
from vlib import hx

A, R, U = 'accept', 'reject', 'unspec'
NS2 = ('ns2.stone', 'namespace ns2\n\nstruct X\n    xf Int32\n\nunion_closed XU\n    xa\n    xb Int32\n\nalias XA = X\n\n'
       'route xr (X, Void, Void)\n')
HEAD = 'namespace ns\n\n'

GROUPS = {
    'references': [
        ('undefined type', HEAD + 'struct S\n    f Zz\n', R),
        ('undefined parent', HEAD + 'struct S extends Zz\n    f Int32\n', R),
        ('forward reference', HEAD + 'struct S\n    f T\nstruct T\n    g Int32\n', A),
        ('self reference nullable', HEAD + 'struct S\n    f S?\n', A),
        ('namespace not imported', HEAD + 'struct S\n    f ns2.X\n', R),
        ('imported type', HEAD + 'import ns2\nstruct S\n    f ns2.X\n', A),
        ('imported alias', HEAD + 'import ns2\nstruct S\n    f ns2.XA\n', A),
        ('imported undefined', HEAD + 'import ns2\nstruct S\n    f ns2.Zz\n', R),
        ('import of unknown namespace', HEAD + 'import nope\nstruct S\n    f Int32\n', R),
        ('route used as type', HEAD + 'struct S\n    f r\nroute r (Void, Void, Void)\n', R),
        ('args on user type', HEAD + 'struct T\n    g Int32\nstruct S\n    f T(min_value=1)\n', R),
        ('args on alias', HEAD + 'alias AI = Int32\nstruct S\n    f AI(min_value=1)\n', R),
        ('void field', HEAD + 'struct S\n    f Void\n', R),
        ('void nullable', HEAD + 'union U\n    t Void?\n', R),
        ('explicit void union member', HEAD + 'union U\n    t Void\n', R),
        ('alias cycle', HEAD + 'alias AA = BB\nalias BB = AA\n', R),
        ('alias self cycle', HEAD + 'alias AA = AA\n', R),
        ('alias three cycle', HEAD + 'alias AA = BB\nalias BB = CC\nalias CC = AA\n', R),
        ('alias to undefined', HEAD + 'alias AA = Zz\n', R),
        ('annotation undefined', HEAD + 'struct S\n    f Int32\n        @Zz\n', R),
    ],
    'inheritance': [
        ('struct extends struct', HEAD + 'struct P\n    a Int32\nstruct S extends P\n    b Int32\n', A),
        ('struct extends union', HEAD + 'union P\n    a\nstruct S extends P\n    b Int32\n', R),
        ('struct extends alias', HEAD + 'struct P\n    a Int32\nalias PA = P\nstruct S extends PA\n    b Int32\n', R),
        ('struct extends primitive', HEAD + 'struct S extends String\n    b Int32\n', R),
        ('struct extends itself', HEAD + 'struct S extends S\n    b Int32\n', R),
        ('struct inheritance cycle', HEAD + 'struct S extends T\n    b Int32\nstruct T extends S\n    c Int32\n', R),
        ('union extends struct', HEAD + 'struct P\n    a Int32\nunion U extends P\n    b\n', R),
        ('union extends alias', HEAD + 'union P\n    a\nalias PA = P\nunion U extends PA\n    b\n', R),
        ('field redeclared in child', HEAD + 'struct P\n    a Int32\nstruct S extends P\n    a Int32\n', R),
        ('field redeclared in grandchild', HEAD + 'struct P\n    a Int32\nstruct Q extends P\n    b Int32\nstruct S extends Q\n    a String\n', R),
        ('duplicate field', HEAD + 'struct S\n    a Int32\n    a Int32\n', R),
        ('tag redeclared in child union', HEAD + 'union_closed P\n    a\nunion_closed U extends P\n    a\n', R),
        ('duplicate tag', HEAD + 'union U\n    a\n    a Int32\n', R),
        ('tag named other in open union', HEAD + 'union U\n    other\n', R),
        ('imported parent', HEAD + 'import ns2\nstruct S extends ns2.X\n    b Int32\n', A),
        ('imported parent field clash', HEAD + 'import ns2\nstruct S extends ns2.X\n    xf Int32\n', R),
        ('imported union parent', HEAD + 'import ns2\nunion_closed U extends ns2.XU\n    c\n', A),
        ('child union sorts before its parent', HEAD + 'union_closed Zeta\n    a\nunion_closed Beta extends Zeta\n    b\nstruct S\n    f Beta\n', A),
        ('child struct sorts before its parent', HEAD + 'struct Zeta\n    a Int32\nstruct Beta extends Zeta\n    b Int32\n', A),
    ],
    'subtypes': [
        ('well formed tree', HEAD + 'struct R\n    union\n        a RA\n        b RB\n    n Int32\nstruct RA extends R\n    x Int32\nstruct RB extends R\n    y Int32\n', A),
        ('closed tree', HEAD + 'struct R\n    union_closed\n        a RA\n    n Int32\nstruct RA extends R\n    x Int32\n', A),
        ('subtype does not extend', HEAD + 'struct R\n    union\n        a RA\n    n Int32\nstruct RA\n    x Int32\n', R),
        ('subtype extends another', HEAD + 'struct Q\n    q Int32\nstruct R\n    union\n        a RA\n    n Int32\nstruct RA extends Q\n    x Int32\n', R),
        ('subtype is a union', HEAD + 'struct R\n    union\n        a RU\n    n Int32\nunion RU\n    x\n', R),
        ('undefined subtype', HEAD + 'struct R\n    union\n        a Zz\n    n Int32\n', R),
        ('subtype listed twice', HEAD + 'struct R\n    union\n        a RA\n        b RA\n    n Int32\nstruct RA extends R\n    x Int32\n', R),
        ('subtype not enumerated', HEAD + 'struct R\n    union\n        a RA\n    n Int32\nstruct RA extends R\n    x Int32\nstruct RB extends R\n    y Int32\n', R),
        ('tag equals own field', HEAD + 'struct R\n    union\n        n RA\n    n Int32\nstruct RA extends R\n    x Int32\n', R),
        ('nested enumeration', HEAD + 'struct R\n    union\n        a RA\n    n Int32\nstruct RA extends R\n    union\n        c RC\n    x Int32\nstruct RC extends RA\n    z Int32\n', R),
        ('same tag for two subtypes', HEAD + 'struct R\n    union\n        a RA\n        a RB\n    n Int32\nstruct RA extends R\n    x Int32\nstruct RB extends R\n    y Int32\n', R),
        ('tag equals inherited-from-nothing field of subtype', HEAD + 'struct R\n    union\n        x RA\n    n Int32\nstruct RA extends R\n    x Int32\n', U),
        ('nullable subtype', HEAD + 'struct R\n    union\n        a RA?\n    n Int32\nstruct RA extends R\n    x Int32\n', U),
    ],
    'nullability_defaults': [
        ('nullable of nullable alias', HEAD + 'alias NA = String?\nstruct S\n    f NA?\n', R),
        ('nullable alias plain', HEAD + 'alias NA = String?\nstruct S\n    f NA\n', A),
        ('default on nullable', HEAD + 'struct S\n    f Int32? = 3\n', R),
        ('null default on nullable', HEAD + 'struct S\n    f Int32? = null\n', R),
        ('default on struct field', HEAD + 'struct T\n    g Int32\nstruct S\n    f T = 3\n', R),
        ('tag default void', HEAD + 'union U\n    a\n    b Int32\nstruct S\n    f U = a\n', A),
        ('tag default non void', HEAD + 'union U\n    a\n    b Int32\nstruct S\n    f U = b\n', R),
        ('tag default unknown', HEAD + 'union U\n    a\nstruct S\n    f U = zz\n', R),
        ('tag default inherited', HEAD + 'union_closed P\n    a\nunion_closed U extends P\n    b\nstruct S\n    f U = a\n', A),
        ('tag default imported union', HEAD + 'import ns2\nstruct S\n    f ns2.XU = xa\n', A),
        ('tag default on int', HEAD + 'struct S\n    f Int32 = a\n', R),
        ('string default', HEAD + 'struct S\n    f String = "John Doe"\n', A),
        ('nested nullable list', HEAD + 'struct S\n    f List(Int32?)?\n', A),
        ('map key not string', HEAD + 'struct S\n    f Map(Int32, Int32)\n', R),
        ('map key string alias', HEAD + 'alias K = String\nstruct S\n    f Map(K, Int32)\n', U),
    ],
    'routes': [
        ('plain', HEAD + 'struct S\n    a Int32\nroute r (S, S, S)\n', A),
        ('void io', HEAD + 'route r (Void, Void, Void)\n', A),
        ('undefined arg', HEAD + 'route r (Zz, Void, Void)\n', R),
        ('versions', HEAD + 'route r (Void, Void, Void)\nroute r:2 (Void, Void, Void)\n', A),
        ('same version twice', HEAD + 'route r (Void, Void, Void)\nroute r:1 (Void, Void, Void)\n', R),
        ('version zero', HEAD + 'route r:0 (Void, Void, Void)\n', R),
        ('route name equals type', HEAD + 'struct r\n    a Int32\nroute r (Void, Void, Void)\n', R),
        ('deprecated', HEAD + 'route r (Void, Void, Void) deprecated\n', A),
        ('deprecated by route', HEAD + 'route r (Void, Void, Void) deprecated by q\nroute q (Void, Void, Void)\n', A),
        ('deprecated by version', HEAD + 'route r (Void, Void, Void) deprecated by r:2\nroute r:2 (Void, Void, Void)\n', A),
        ('deprecated by undefined', HEAD + 'route r (Void, Void, Void) deprecated by zz\n', R),
        ('deprecated by missing version', HEAD + 'route r (Void, Void, Void) deprecated by q:3\nroute q (Void, Void, Void)\n', R),
        ('deprecated by a struct', HEAD + 'struct S\n    a Int32\nroute r (Void, Void, Void) deprecated by S\n', R),
        ('attr without schema', HEAD + 'route r (Void, Void, Void)\n    attrs\n        k = 1\n', R),
        ('attr twice', HEAD + 'route r (Void, Void, Void)\n    attrs\n        k = 1\n        k = 2\n', R),
        ('imported arg', HEAD + 'import ns2\nroute r (ns2.X, Void, ns2.XU)\n', A),
        ('primitive arg', HEAD + 'route r (String, Int32, Void)\n', U),
        ('nullable arg', HEAD + 'struct S\n    a Int32\nroute r (S?, Void, Void)\n', U),
    ],
    'annotations': [
        ('omitted', HEAD + 'annotation In = Omitted("internal")\nstruct S\n    a Int32\n        @In\n', A),
        ('deprecated and preview', HEAD + 'annotation Dp = Deprecated()\nannotation Pv = Preview()\nstruct S\n    a Int32\n        @Dp\n        @Pv\n', R),
        ('two omitted', HEAD + 'annotation In = Omitted("internal")\nannotation Al = Omitted("alpha")\nstruct S\n    a Int32\n        @In\n        @Al\n', R),
        ('two redactors', HEAD + 'annotation Rb = RedactedBlot()\nannotation Rh = RedactedHash()\nstruct S\n    a String\n        @Rb\n        @Rh\n', R),
        ('redactor on alias and field', HEAD + 'annotation Rb = RedactedBlot()\nalias Sec = String\n    @Rb\nstruct S\n    a Sec\n        @Rb\n', R),
        ('redactor on alias', HEAD + 'annotation Rb = RedactedBlot()\nalias Sec = String\n    @Rb\nstruct S\n    a Sec\n', A),
        ('redactor on struct field', HEAD + 'annotation Rb = RedactedBlot()\nstruct T\n    g String\nstruct S\n    a T\n        @Rb\n', R),
        ('redactor on list of strings', HEAD + 'annotation Rb = RedactedBlot()\nstruct S\n    a List(String)\n        @Rb\n', A),
        ('unknown annotation type', HEAD + 'annotation Zz = Nope()\n', R),
        ('omitted without caller', HEAD + 'annotation In = Omitted()\n', R),
        ('omitted on alias', HEAD + 'annotation In = Omitted("internal")\nalias Sec = String\n    @In\n', R),
        ('annotation name clash', HEAD + 'annotation In = Omitted("internal")\nannotation In = Omitted("x")\n', R),
        ('imported annotation', ('ann.stone', 'namespace ann\nannotation In = Omitted("internal")\n'), A),
        ('annotation type qualified by the own namespace', HEAD + 'annotation_type T\n    x Int32\nannotation X = ns.T(x=1)\n', R),
        ('annotation type in a namespace not imported', HEAD + 'annotation X = ns2.T(x=1)\n', R),
        ('annotation type in an unknown namespace', HEAD + 'annotation X = zz.T(x=1)\n', R),
        ('annotation qualified by a struct', HEAD + 'annotation In = Omitted("i")\nstruct X\n    g Int32\nstruct S\n    a Int32\n        @X.In\n', R),
        ('annotation qualified by an alias', HEAD + 'annotation In = Omitted("i")\nalias X = String\nstruct S\n    a Int32\n        @X.In\n', R),
        ('annotation qualified by a builtin', HEAD + 'annotation In = Omitted("i")\nstruct S\n    a Int32\n        @String.In\n', R),
        ('annotation qualified by an annotation', HEAD + 'annotation In = Omitted("i")\nstruct S\n    a Int32\n        @In.In\n', R),
        ('annotation qualified by a route', HEAD + 'annotation In = Omitted("i")\nroute r (Void, Void, Void)\nstruct S\n    a Int32\n        @r.In\n', R),
        ('annotation qualified by an unknown name', HEAD + 'annotation In = Omitted("i")\nstruct S\n    a Int32\n        @zz.In\n', R),
        ('annotation of an imported namespace', HEAD + 'import ns2\nstruct S\n    a Int32\n        @ns2.Zz\n', R),
    ],
    'examples': [
        ('missing required', HEAD + 'struct S\n    a Int32\n    b Int32\n    example default\n        a = 1\n', R),
        ('unknown field', HEAD + 'struct S\n    a Int32\n    example default\n        a = 1\n        z = 2\n', R),
        ('label twice', HEAD + 'struct S\n    a Int32\n    example default\n        a = 1\n    example default\n        a = 2\n', R),
        ('field twice', HEAD + 'struct S\n    a Int32\n    example default\n        a = 1\n        a = 2\n', R),
        ('ref to missing label', HEAD + 'struct T\n    g Int32\n    example default\n        g = 1\nstruct S\n    t T\n    example default\n        t = nope\n', R),
        ('ref ok', HEAD + 'struct T\n    g Int32\n    example default\n        g = 1\nstruct S\n    t T\n    example default\n        t = default\n', A),
        ('literal for struct field', HEAD + 'struct T\n    g Int32\nstruct S\n    t T\n    example default\n        t = 5\n', R),
        ('union example two tags', HEAD + 'union U\n    a Int32\n    b Int32\n    example default\n        a = 1\n        b = 2\n', R),
        ('union example unknown tag', HEAD + 'union U\n    a Int32\n    example default\n        z = 1\n', R),
        ('union example ok', HEAD + 'union U\n    a Int32\n    example default\n        a = 1\n', A),
        ('tree example ok', HEAD + 'struct R\n    union\n        a RA\n    n Int32\n    example default\n        a = default\nstruct RA extends R\n    x Int32\n    example default\n        n = 1\n        x = 2\n', A),
        ('tree example literal', HEAD + 'struct R\n    union\n        a RA\n    n Int32\n    example default\n        a = 5\nstruct RA extends R\n    x Int32\n', R),
        ('tree example unknown tag', HEAD + 'struct R\n    union\n        a RA\n    n Int32\n    example default\n        z = default\nstruct RA extends R\n    x Int32\n    example default\n        n = 1\n        x = 2\n', R),
        ('empty example of all-optional struct', HEAD + 'struct S\n    a Int32?\n    example default\n', A),
        ('list of refs', HEAD + 'struct T\n    g Int32\n    example default\n        g = 1\nstruct S\n    ts List(T)\n    example default\n        ts = [default, default]\n', A),
        ('map example', HEAD + 'struct S\n    m Map(String, Int32)\n    example default\n        m = {"a": 1}\n', A),
        ('map example bad value', HEAD + 'struct S\n    m Map(String, Int32)\n    example default\n        m = {"a": "b"}\n', R),
        ('refs through alias of list', HEAD + 'struct T\n    g Int32\n    example default\n        g = 1\nalias LT = List(T)\nstruct S\n    ts LT\n    example default\n        ts = [default]\n', A),
        ('ref through alias of nullable struct', HEAD + 'struct T\n    g Int32\n    example default\n        g = 1\nalias AT = T?\nstruct S\n    t AT\n    example default\n        t = default\n', A),
        ('map example bad key', HEAD + 'struct S\n    m Map(String, Int32)\n    example default\n        m = {1: 1}\n', R),
        ('example without fields on a struct tree', HEAD + 'struct R\n    union\n        a RA\n    n Int32\n    example default\nstruct RA extends R\n    x Int32\n    example default\n        n = 1\n        x = 2\n', R),
        ('example without fields, required field', HEAD + 'struct S\n    a Int32\n    example default\n', R),
        ('example without fields, all optional', HEAD + 'struct S\n    a Int32?\n    b Int32 = 1\n    example default\n', A),
        ('example without fields on a union', HEAD + 'union U\n    a\n    b Int32\n    example default\n', R),
    ],
    'redefinitions': [
        ('alias named like builtin', HEAD + 'alias String = Int32\n', R),
        ('struct named like builtin', HEAD + 'struct Int32\n    a String\n', R),
        ('route named like builtin', HEAD + 'route List (Void, Void, Void)\n', R),
        ('alias after route', HEAD + 'route r (Void, Void, Void)\nalias r = Int32\n', R),
        ('struct after route', HEAD + 'route r (Void, Void, Void)\nstruct r\n    a Int32\n', R),
        ('annotation and alias canonical clash', HEAD + 'alias AN = String\nannotation An = Deprecated()\n', R),
        ('annotation and annotation type canonical clash', HEAD + 'annotation_type Important\n    level Int32\nannotation important = Important(level=1)\n', R),
        ('annotation type and struct canonical clash', HEAD + 'annotation_type Impo\n    level Int32\nstruct impo\n    a Int32\n', R),
        ('custom annotation two positional', HEAD + 'annotation_type Imp\n    level Int32\n    tag String\nannotation Hi = Imp(1, "x")\nstruct S\n    a Int32\n        @Hi\n', A),
        ('custom annotation too many', HEAD + 'annotation_type Imp\n    level Int32\nannotation Hi = Imp(1, 2)\n', R),
        ('custom annotation wrong kind', HEAD + 'annotation_type Imp\n    level Int32\nannotation Hi = Imp("x")\n', R),
        ('custom annotation unknown kw', HEAD + 'annotation_type Imp\n    level Int32\nannotation Hi = Imp(zz=1)\n', R),
        ('custom annotation missing', HEAD + 'annotation_type Imp\n    level Int32\nannotation Hi = Imp()\n', R),
        ('builtin annotation bad args', HEAD + 'annotation In = Omitted("a", "b")\n', R),
        ('example map with map key', HEAD + 'struct S\n    m Map(String, Int32)\n    example default\n        m = {{"k": 1}: 2}\n', R),
        ('example map with list key', HEAD + 'struct S\n    m Map(String, Int32)\n    example default\n        m = {[1]: 2}\n', R),
        ('truncated struct', HEAD + 'struct S', R),
        ('first line not namespace', 'alias x = Int32\n', R),
        ('unbalanced paren', HEAD + 'struct S\n    f Int32)\n', R),
    ],
    'patches_names': [
        ('patch struct', HEAD + 'struct S\n    a Int32\npatch struct S\n    b Int32\n', A),
        ('patch adds clashing field', HEAD + 'struct S\n    a Int32\npatch struct S\n    a Int32\n', R),
        ('patch of undefined', HEAD + 'patch struct Zz\n    b Int32\n', R),
        ('patch union closedness mismatch', HEAD + 'union U\n    a\npatch union_closed U\n    b\n', R),
        ('patch union', HEAD + 'union U\n    a\npatch union U\n    b\n', A),
        ('patch clashes with child field', HEAD + 'struct P\n    a Int32\nstruct S extends P\n    b Int32\npatch struct P\n    b Int32\n', R),
        ('patch example', HEAD + 'struct S\n    a Int32\n    example default\n        a = 1\npatch struct S\n    b Int32?\n    example default\n        b = 2\n', A),
        ('type name twice', HEAD + 'struct S\n    a Int32\nstruct S\n    b Int32\n', R),
        ('type and alias same name', HEAD + 'struct S\n    a Int32\nalias S = Int32\n', R),
        ('canonical name clash', HEAD + 'struct FooBar\n    a Int32\nstruct foo_bar\n    b Int32\n', R),
        ('alias and route same name', HEAD + 'alias r = Int32\nroute r (Void, Void, Void)\n', R),
        ('two namespaces decls', HEAD + 'namespace other\n', R),
        ('stone_cfg route', 'namespace stone_cfg\nroute r (Void, Void, Void)\n', R),
        ('stone_cfg other struct', 'namespace stone_cfg\nstruct NotRoute\n    a Int32\n', R),
        ('stone_cfg union route', 'namespace stone_cfg\nunion Route\n    a\n', R),
        ('keyword example in alias position', HEAD + 'example x = String\n', R),
        ('keyword doc in alias position', HEAD + 'doc x = String\n', R),
        ('keyword union in alias position', HEAD + 'union x = String\n', R),
    ],
}


def _specs(case):
    body = case[1]
    specs = [NS2]
    if isinstance(body, tuple):                     # an extra file before the main one
        specs.append(body)
        main = HEAD + 'import ann\nstruct S\n    a Int32\n        @ann.In\n'
    else:
        main = body
    specs.append(('t.stone', main))
    if case[0] in ('stone_cfg route', 'stone_cfg other struct'):
        specs.append(('u.stone', HEAD + 'struct S\n    a Int32\n'))
    if case[0] == 'stone_cfg union route':
        specs.append(('u.stone', HEAD + 'route r (Void, Void, Void)\n    attrs\n        x = 1\n'))
    return specs


def _parse_all(specs):
    """parse like specs_to_ir does; a syntax error is a spec error ('invalid')"""
    from stone.frontend.parser import ParserFactory
    asts = []
    for path, text in specs:
        parser = fe._PF.get_parser()
        tree = parser.parse(text, path)
        errs = parser.got_errors_parsing() and parser.get_errors()
        parser.errors = []
        parser.lexer.errors = []
        if errs:
            return None
        if tree:
            asts.append(tree)
    return asts


@hx.harness(props=['C01', 'C02', 'C03'], targets=['stone.frontend.ir_generator:IRGenerator.generate_IR'], items=sorted(GROUPS),
            bound='a fixed table of (rule, site) specs per group (finite; the solver enumerates the case index): %s'
                  % {g: len(c) for g, c in sorted(GROUPS.items())},
            outside=['specs outside the table'], budget=(120, 300))
def rule_case(k: int) -> bool:
    """
    pre: 0 <= k < 32
    post: _
    """
    cases = GROUPS[hx.ITEM]
    k = int(k)
    if k >= len(cases):
        return True
    case = cases[k]
    specs = _specs(case)
    with fe.no_tracing():
        asts = _parse_all(specs)
    if asts is None:
        # rejected by the parser: that is a spec error as well
        if hx.ASPECT == 'C03':
            return hx.ok(True)
        return hx.ok(case[2] != A)
    return fe.decide(asts, lambda: specs, case[2], fidelity=invariants)


def invariants(api):
    """C02 closure / ordering invariants of an accepted API description"""
    from stone.ir import is_alias, is_list_type, is_map_type, is_nullable_type, is_user_defined_type
    names = list(api.namespaces)
    if names != sorted(names):
        return False
    for ns in api.namespaces.values():
        if [d.name for d in ns.data_types] != sorted(d.name for d in ns.data_types):
            return False
        if [a.name for a in ns.aliases] != sorted(a.name for a in ns.aliases):
            return False
        if [(r.name, r.version) for r in ns.routes] != sorted((r.name, r.version) for r in ns.routes):
            return False
        for al in ns.aliases:                       # aliasing is acyclic and ends in a real type
            seen, cur = set(), al
            while is_alias(cur):
                if id(cur) in seen:
                    return False
                seen.add(id(cur))
                cur = cur.data_type
            if cur is None:
                return False

        def closed(dt, depth=0):
            """every reachable type is fully defined and registered in its namespace"""
            if depth > 8 or dt is None:
                return dt is not None
            if is_alias(dt):
                return dt.namespace.alias_by_name.get(dt.name) is dt and closed(dt.data_type, depth + 1)
            if is_nullable_type(dt) or is_list_type(dt):
                return closed(dt.data_type, depth + 1)
            if is_map_type(dt):
                return closed(dt.value_data_type, depth + 1)
            if is_user_defined_type(dt):
                return (not dt._is_forward_ref) and dt.namespace.data_type_by_name.get(dt.name) is dt
            return True
        for dt in ns.data_types:
            parent, hops = dt.parent_type, 0
            while parent is not None:               # inheritance is acyclic
                hops += 1
                if hops > 50 or parent is dt:
                    return False
                parent = parent.parent_type
            fields = [f.name for f in dt.all_fields]
            if len(fields) != len(set(fields)):
                return False
            if not all(closed(f.data_type) for f in dt.all_fields):
                return False
            lin = ns.linearize_data_types()
            if dt.parent_type is not None and dt.parent_type.namespace is ns and \
                    lin.index(dt.parent_type) > lin.index(dt):
                return False
        for r in ns.routes:
            if not (closed(r.arg_data_type) and closed(r.result_data_type) and closed(r.error_data_type)):
                return False
    return True


def explain(fname, args):
    import os
    cases = GROUPS[os.environ.get('VERIF_ITEM')]
    k = int(args['k'])
    return 'case %r expected %s' % (cases[k][0], cases[k][2]) if k < len(cases) else ''
