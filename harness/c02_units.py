"""C02 unit harnesses on the IR: struct field ordering with symbolic optionality, alphabetical normalisation with
symbolic names."""
import re
import types
from typing import Tuple

from stone.ir import ApiNamespace, ApiRoute, Int32, Nullable, Struct, StructField
from stone.ir.data_types import Alias, Union as IrUnion
from vlib import hx

_NODE = types.SimpleNamespace(lineno=1, path='t.stone', lexpos=0)
B7 = Tuple[bool, bool, bool, bool, bool, bool, bool]
K7 = Tuple[bool, bool, bool, bool, bool, bool, bool]


def _field(name, optional, by_default):
    if optional and not by_default:
        return StructField(name, Nullable(Int32()), None, _NODE)
    f = StructField(name, Int32(), None, _NODE)
    if optional:
        f.set_default(0)
    return f


@hx.harness(props=['C02'], targets=['stone.ir.data_types:Struct.all_fields'],
            bound='inheritance chain of depth 3 with 2+3+2 declared fields; each field required / nullable / defaulted '
                  '(symbolic)', budget=(120, 400))
def all_fields_order(opt: B7, dflt: K7) -> bool:
    """
    post: _
    """
    ns = ApiNamespace('ns')
    a, b, c = Struct('A', ns, _NODE), Struct('B', ns, _NODE), Struct('C', ns, _NODE)
    names = ['a1', 'a2', 'b1', 'b2', 'b3', 'c1', 'c2']
    fs = [_field(n, opt[i], dflt[i]) for i, n in enumerate(names)]
    a.set_attributes(None, fs[0:2], None)
    b.set_attributes(None, fs[2:5], a)
    c.set_attributes(None, fs[5:7], b)
    good = True
    for dt, own in ((a, names[0:2]), (b, names[0:5]), (c, names)):
        got = [f.name for f in dt.all_fields]
        req = [n for n in own if not opt[names.index(n)]]
        optional = [n for n in own if opt[names.index(n)]]
        # documented order: required before optional; within each group parents first, declaration order
        good = good and got == req + optional
        good = good and [f.name for f in dt.all_required_fields] == req
        good = good and [f.name for f in dt.all_optional_fields] == optional
    return hx.ok(good)


S3 = Tuple[str, str, str]


def _alpha(x):
    return len(x) <= 2 and re.fullmatch('[Aa_]*', x) is not None


@hx.harness(props=['C02'], targets=['stone.ir.api:ApiNamespace.normalize'], items=['types', 'aliases'],
            bound='3 data types (aliases) with symbolic names (<= 2 chars over {A,a,_}), added in declaration order',
            budget=(200, 600))
def normalize_names(tn: S3) -> bool:
    """
    pre: all(_alpha(x) for x in tn)
    post: _
    """
    ns = ApiNamespace('ns')
    for n in tn:
        if hx.ITEM == 'types':
            ns.data_types.append(Struct(n, ns, _NODE))
        else:
            ns.aliases.append(Alias(n, ns, _NODE))
    lst = ns.data_types if hx.ITEM == 'types' else ns.aliases
    before = list(lst)
    ns.normalize()
    lst = ns.data_types if hx.ITEM == 'types' else ns.aliases
    good = all(lst[i].name <= lst[i + 1].name for i in range(2))
    good = good and sorted(map(id, lst)) == sorted(map(id, before))      # complete: none lost or duplicated
    return hx.ok(good)


@hx.harness(props=['C02'], targets=['stone.ir.api:ApiNamespace.normalize'],
            bound='3 routes with symbolic names (<= 1 char over {a,b}) and symbolic versions 1..3', budget=(200, 600))
def normalize_routes(rn: S3, rv: Tuple[int, int, int]) -> bool:
    """
    pre: all(len(x) <= 1 and re.fullmatch('[ab]*', x) is not None for x in rn)
    pre: all(1 <= v <= 3 for v in rv)
    post: _
    """
    ns = ApiNamespace('ns')
    for n, v in zip(rn, rv):
        ns.routes.append(ApiRoute(n, v, _NODE))
    before = list(ns.routes)
    ns.normalize()
    rts = ns.routes
    good = all((rts[i].name, rts[i].version) <= (rts[i + 1].name, rts[i + 1].version) for i in range(2))
    good = good and sorted(map(id, rts)) == sorted(map(id, before))
    return hx.ok(good)


# ---------------------------------------------------------------- documentation text as the Api carries it
from stone.ir import data_types as _dtm

ND = hx.tier(6, 7)


def _ref_unwrap(raw):
    """doc_unwrap's documented contract: leading / trailing whitespace removed, a lone newline becomes a space,
    N > 1 consecutive newlines become N - 1 newlines (written independently, run by run)"""
    text = raw.strip()
    out, k = [], 0
    while k < len(text):
        if text[k] != '\n':
            out.append(text[k])
            k += 1
            continue
        run = 0
        while k < len(text) and text[k] == '\n':
            run += 1
            k += 1
        out.append(' ' if run == 1 else '\n' * (run - 1))
    return ''.join(out)


@hx.harness(props=['C02'], targets=['stone.ir.data_types:doc_unwrap'],
            bound='raw doc text <= %d chars over {a, b, space, newline}: the doc the Api carries equals the documented '
                  'unwrapping (lone newline -> space, N newlines -> N-1)' % ND, budget=(200, 600))
def doc_unwrap_exact(doc: str) -> bool:
    """
    pre: len(doc) <= ND and re.fullmatch('[ab \\n]*', doc) is not None
    post: _
    """
    return hx.ok(_dtm.doc_unwrap(doc) == _ref_unwrap(doc))
