"""Frontend slot (b): field defaults.  The symbolic default sits in AstField.default as the parser delivers it
(bool / int / float / str / None for null / AstTagRef).

Language rules (lang_ref.rst "Defaults"): a field with a primitive type can have a default, which must be a value
of that type; a default cannot be set for a nullable type; a union-typed field can default only to a void member.
Unspecified: booleans where numbers are expected, integers for float fields (accepted, stored as float), string
defaults of Bytes fields.
"""
import re
from typing import Union

from stone.backends.python_rsrc import stone_validators as bv
from stone.backends.python_types import generate_validator_constructor
from stone.frontend import ast as A
from stone.ir import TagRef, is_primitive_type, unwrap_aliases

from harness import fe_common as fe
from vlib import hx

V = Union[None, bool, int, float, str]
NSTR = hx.tier(3, 4)
F32 = 3.40282 * 10**38

TEMPLATE = '''namespace ns

union U
    v0
    v1
    t Int32
    n Int32?

union_closed UP
    p0
    pt String

union_closed UC extends UP
    w

struct T
    x Int32

alias SmallA = Int32(min_value=-5, max_value=5)
alias SmallB = SmallA
alias NullInt = Int32?
alias UA = U

struct S
    f %s = %s
'''

# field type -> (kind, parameters of the reference rule)
TYPES = {
    'Int32': ('int', -2**31, 2**31 - 1),
    'Int32(min_value=-3, max_value=7)': ('int', -3, 7),
    'UInt32(max_value=10)': ('int', 0, 10),
    'Int64': ('int', -2**63, 2**63 - 1),
    'UInt64(min_value=2)': ('int', 2, 2**64 - 1),
    'SmallB': ('int', -5, 5),
    'Float64': ('float', None, None),
    'Float64(min_value=-1.5, max_value=2.5)': ('float', -1.5, 2.5),
    'Float32': ('float', -F32, F32),
    'Boolean': ('bool',),
    'String': ('str', None, None, None),
    'String(min_length=1, max_length=3)': ('str', 1, 3, None),
    'String(pattern="[a-z]+")': ('str', None, None, '[a-z]+'),
    'String(max_length=2, pattern="a|bc*")': ('str', None, 2, 'a|bc*'),
    'Float64(max_value=2.5)': ('float', None, 2.5),
    'Timestamp("%Y")': ('text',),
    'Bytes': ('text',),
    'U': ('union',),
    'UC': ('union',),
    'UA': ('union',),
    'T': ('nodefault',),
    'List(Int32)': ('nodefault',),
    'Map(String, Int32)': ('nodefault',),
    'Int32?': ('nodefault',),
    'NullInt': ('nodefault',),
    'U?': ('nodefault',),
}
FLOAT_TYPES = [t for t, k in TYPES.items() if k[0] == 'float']


def other_types():
    """per aspect: C02 / C10 only make sense where some default can be accepted"""
    if hx.ASPECT in ('C02', 'C10'):
        return [t for t, k in TYPES.items() if k[0] in ('int', 'bool', 'str')]
    if hx.ASPECT == 'C01':
        return [t for t, k in TYPES.items() if k[0] not in ('float',)]
    return [t for t, k in TYPES.items() if k[0] != 'float']


def tag_types():
    if hx.ASPECT == 'C02':
        return [t for t, k in TYPES.items() if k[0] == 'union']
    return list(TYPES)
ITEM = hx.ITEM if hx.ITEM in TYPES else 'Int32'
BASES = {t: fe.parse(TEMPLATE % (t, '0')) for t in TYPES}
assert fe.run_text([('t.stone', TEMPLATE % ('Int32', '0'))])[0] == 'ok'      # the template itself is a legal spec


def _field(api):
    return api.namespaces['ns'].data_type_by_name['S'].fields[0]


def _asts(default):
    asts = fe.clone(BASES[hx.ITEM])
    s = [n for n in asts if getattr(n, 'name', None) == 'S'][0]
    s.fields[0].default = default
    s.fields[0].has_default = True
    return [asts]


def _literal_oracle(spec, d):
    kind = spec[0]
    if kind == 'nodefault' or kind == 'union':
        return 'reject'
    if kind == 'int':
        if isinstance(d, bool):
            return 'unspec'
        if not isinstance(d, int):
            return 'reject'
        return 'accept' if spec[1] <= d <= spec[2] else 'reject'
    if kind == 'float':
        if isinstance(d, bool):
            return 'unspec'
        if isinstance(d, int):
            ok = (spec[1] is None or d >= spec[1]) and (spec[2] is None or d <= spec[2])
            return 'unspec' if ok else 'reject'
        if not isinstance(d, float):
            return 'reject'
        if d != d or d in (float('inf'), float('-inf')):
            return 'reject'
        return 'accept' if (spec[1] is None or d >= spec[1]) and (spec[2] is None or d <= spec[2]) else 'reject'
    if kind == 'bool':
        return 'accept' if isinstance(d, bool) else 'reject'
    if kind == 'text':
        # Timestamp / Bytes defaults are written as strings; whether a given string is well formed is not judged
        return 'unspec' if isinstance(d, str) else 'reject'
    if kind == 'str':
        if not isinstance(d, str):
            return 'reject'
        if spec[1] is not None and len(d) < spec[1]:
            return 'reject'
        if spec[2] is not None and len(d) > spec[2]:
            return 'reject'
        if spec[3] is not None and re.fullmatch(spec[3], d) is None:
            return 'reject'
        return 'accept'
    raise AssertionError(kind)


def _runtime_ok(api):
    """C10: a default the compiler accepted is a value the generated validator accepts for the field"""
    f = _field(api)
    dt, _ = unwrap_aliases(f.data_type)
    if not is_primitive_type(dt):
        return True
    validator = eval(generate_validator_constructor(api.namespaces['ns'], dt), {'bv': bv})
    try:
        validator.validate(f.default)
    except bv.ValidationError:
        return False
    return True


def _decide(d, text_default):
    spec = TYPES[hx.ITEM]
    oracle = _literal_oracle(spec, d)

    def fidelity(api):
        f = _field(api)
        if not f.has_default:
            return False
        if spec[0] == 'float':
            return isinstance(f.default, float) and f.default == d
        return f.default == d and type(f.default) is type(d)
    return fe.decide(_asts(d), lambda: [('t.stone', TEMPLATE % (hx.ITEM, text_default()))], oracle, fidelity, _runtime_ok)


_TG = ['stone.frontend.ir_generator:IRGenerator.generate_IR']
_OUT = ['syntax-level errors', 'Bytes / Timestamp defaults', 'booleans as numbers; integers as float defaults are accepted '
        'and only their stored value is judged (C02)', 'strings the lexer alters (line breaks followed by indentation)']


def _str_ok(d):
    return not isinstance(d, str) or (len(d) <= NSTR and re.fullmatch('[ab1 "\\\\]*', d) is not None)


@hx.harness(props=['C01', 'C02', 'C03', 'C10'], targets=_TG, items=other_types,
            bound='default literal: null, bool, any int, any finite float, string <= %d chars over {a,b,1,space,",\\}; '
                  'per field type of the list (bounded ints, alias chain, Boolean, String with lengths / patterns, unions, '
                  'struct, List, Map, nullable, alias of nullable)' % NSTR, outside=_OUT, budget=(120, 400))
def literal_default(d: V) -> bool:
    """
    pre: _str_ok(d)
    pre: TYPES[ITEM][0] != 'text' or not isinstance(d, str)
    pre: not isinstance(d, float) or (d == d and abs(d) < 1e300)
    post: _
    """
    return _decide(d, lambda: fe.lit(d))


VF = Union[None, bool, float, str]


@hx.harness(props=['C01', 'C02', 'C03', 'C10'], targets=_TG, items=FLOAT_TYPES,
            bound='default literal of a float field: null, bool, any finite binary64 (IEEE-exact), string <= %d chars' % NSTR,
            outside=_OUT, budget=(120, 400), glue=['pin_ieee_floats'])
def float_default(d: VF) -> bool:
    """
    pre: _str_ok(d)
    pre: not isinstance(d, float) or (d == d and abs(d) < 1e300)
    post: _
    """
    return _decide(d, lambda: fe.lit(d))


@hx.harness(props=['C01', 'C02', 'C03', 'C10'], targets=_TG, items=FLOAT_TYPES,
            bound='integer default (|d| < 1e15) of a float field; int -> float in the real-number model',
            outside=_OUT, budget=(120, 400), glue=['pin_real_floats'])
def float_default_int(d: int) -> bool:
    """
    pre: abs(d) < 10**15
    post: _
    """
    return _decide(d, lambda: fe.lit(d))


TAGS = ['v0', 'v1', 't', 'n', 'w', 'p0', 'pt', 'other', 'zz', 'S']


@hx.harness(props=['C01', 'C02', 'C03'], targets=_TG, items=tag_types,
            bound='default given as a tag reference, tag name from {v0, v1, t, n, w, p0, pt, other, zz, S} (void, typed, nullable, '
                  'inherited-by-child, catch-all, unknown, a type name)', outside=_OUT, budget=(60, 200))
def tag_default(k: int) -> bool:
    """
    pre: 0 <= k < len(TAGS)
    post: _
    """
    tag = TAGS[k]
    spec = TYPES[hx.ITEM]
    void_tags = {'U': ('v0', 'v1', 'other'), 'UA': ('v0', 'v1', 'other'), 'UC': ('p0', 'w')}
    if spec[0] == 'union':
        oracle = 'accept' if tag in void_tags[hx.ITEM] else 'reject'
        if tag == 'other':
            oracle = 'unspec'
    else:
        oracle = 'reject'

    def fidelity(api):
        f = _field(api)
        return (f.has_default and isinstance(f.default, TagRef) and f.default.tag_name == tag
                and f.default.union_data_type is unwrap_aliases(f.data_type)[0] or
                (f.has_default and isinstance(f.default, TagRef) and f.default.tag_name == tag
                 and f.default.union_data_type is f.data_type))
    return fe.decide(_asts(A.AstTagRef('t.stone', 20, 0, tag)), lambda: [('t.stone', TEMPLATE % (hx.ITEM, tag))],
                     oracle, fidelity)


TEXTS = ['', '1', '2020', 'a b', 'YWJj']


@hx.harness(props=['C01', 'C03'], targets=_TG, items=['Timestamp("%Y")', 'Bytes'],
            bound='string default of a Timestamp / Bytes field from a concrete list %s (strptime / base64 are C code)' % TEXTS,
            outside=_OUT, budget=(60, 200))
def text_default(k: int) -> bool:
    """
    pre: 0 <= k < len(TEXTS)
    post: _
    """
    d = TEXTS[int(k)]
    return _decide(d, lambda: fe.lit(d))
