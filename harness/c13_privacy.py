"""C13: omitted fields/tags per caller permission and redaction, over the annotated catalogue compiled at check time."""
import re
from typing import Tuple

from stone.backends.python_rsrc import stone_serializers as ss
from stone.backends.python_rsrc import stone_validators as bv
from stone.ir import is_struct_type, is_union_type

from refmodel import wire
from vlib import fixtures, hx, valgen

API = fixtures.api_for('annotated')
MODS = {'ann': fixtures.module('anngen', 'ann')}
NSN = API.namespaces['ann']
NS = hx.tier(3, 3)

I8 = Tuple[int, int, int, int, int, int, int, int]
S4 = Tuple[str, str, str, str]
S6 = Tuple[str, str, str, str, str, str]
B16 = Tuple[bool, bool, bool, bool, bool, bool, bool, bool, bool, bool, bool, bool, bool, bool, bool, bool]

CALLERS = ('internal', 'alpha', 'betaTesters')


class Perm(ss.CallerPermissionsInterface):
    def __init__(self, held):
        self._held = list(held)

    @property
    def permissions(self):
        return self._held


def focus_items(types):
    out = []
    for t in types:
        dt = NSN.data_type_by_name[t]
        n = len([f for f in dt.all_fields if not getattr(f, 'catch_all', False)])
        out.extend('%s#%d' % (t, k) for k in range(n))
    return out


# ---- annotations as DECLARED (from the AST of the annotated catalogue, independent of the IR) -------------------
def _declared():
    from stone.frontend import ast as A
    from harness import fe_common as fe
    specs = fixtures.read_specs('annotated')
    tree = fe.parse(specs[0][1], specs[0][0])
    defs = {n.name: n for n in tree if isinstance(n, A.AstAnnotationDef)}
    table = {}
    for n in tree:
        if isinstance(n, (A.AstStructDef, A.AstUnionDef)):
            for f in n.fields:
                omitted, redactor = None, None
                for ref in getattr(f, 'annotations', None) or []:
                    d = defs[ref.annotation]
                    if d.annotation_type == 'Omitted':
                        omitted = d.args[0]
                    elif d.annotation_type in ('RedactedBlot', 'RedactedHash'):
                        redactor = (d.annotation_type, d.args[0] if d.args else None)
                table[(n.name, f.name)] = (omitted, redactor)
        elif isinstance(n, A.AstAlias):
            redactor = None
            for ref in n.annotations or []:
                d = defs[ref.annotation]
                if d.annotation_type in ('RedactedBlot', 'RedactedHash'):
                    redactor = (d.annotation_type, d.args[0] if d.args else None)
            table[('alias', n.name)] = (None, redactor)
    return table


DECLARED = _declared()
DECLARED_KEYS = sorted(DECLARED)


@hx.harness(props=['C13'], targets=['harness.c13_privacy:_ir_annotation'],
            bound='every field / tag / alias of the annotated catalogue (finite, enumerated by the solver): the annotation '
                  'the API description carries equals the one declared in the spec text (read from the AST)',
            budget=(60, 120))
def annotation_attached(k: int) -> bool:
    """
    pre: 0 <= k < len(DECLARED_KEYS)
    post: _
    """
    owner, name = DECLARED_KEYS[k]
    return hx.ok(_ir_annotation(owner, name) == DECLARED[(owner, name)])


def _ir_annotation(owner, name):
    if owner == 'alias':
        obj = NSN.alias_by_name[name]
        omitted = None
    else:
        obj = [f for f in NSN.data_type_by_name[owner].fields if f.name == name][0]
        omitted = obj.omitted_caller
    red = obj.redactor
    return (omitted, (type(red).__name__, red.regex) if red is not None else None)


def lookup(item):
    name = item.split('@')[0].split('#')[0]
    dt = NSN.data_type_by_name[name]
    return dt, getattr(MODS['ann'], name + '_validator')


def _alpha_ok(x):
    return re.fullmatch('[abxy ]*', x) is not None


def _build(i, s, b, str_ok=None):
    dt, validator = lookup(hx.ITEM)
    pool = hx.Pool(ints=i, strs=s, bools=tuple(b), str_ok=str_ok)
    focus = int(hx.ITEM.split('#')[1]) if '#' in hx.ITEM else None
    gen = valgen.Gen(MODS, pool, max_list=hx.tier(1, 2), catch_all=False, focus=focus,
                     sym_level=(1 if focus is not None else 9))
    val, sh = gen.build(dt)
    return dt, validator, val, sh, pool


def _omitted_present(dt, sh, perms):
    """does the shadow contain a set field / chosen tag whose caller class is not held?"""
    if isinstance(sh, tuple) and sh[0] == 'struct':
        byname = {f.name: f for f in sh[1].all_fields}
        for name, fsh in sh[2].items():
            f = byname[name]
            if f.omitted_caller is not None and f.omitted_caller not in perms:
                return True
            if _omitted_present(f.data_type, fsh, perms):
                return True
        return False
    if isinstance(sh, tuple) and sh[0] == 'union':
        f = [x for x in sh[1].all_fields if x.name == sh[2]][0]
        if f.omitted_caller is not None and f.omitted_caller not in perms:
            return True
        return _omitted_present(f.data_type, sh[3], perms)
    if isinstance(sh, list):
        return any(_omitted_present(None, x, perms) for x in sh)
    if isinstance(sh, dict):
        return any(_omitted_present(None, x, perms) for x in sh.values())
    return False


def _hidden_tag(sh, perms):
    """a union value (anywhere) whose chosen tag is omitted for this caller: the encoder may refuse it"""
    if isinstance(sh, tuple) and sh[0] == 'union':
        f = [x for x in sh[1].all_fields if x.name == sh[2]][0]
        if f.omitted_caller is not None and f.omitted_caller not in perms:
            return True
        return _hidden_tag(sh[3], perms)
    if isinstance(sh, tuple) and sh[0] == 'struct':
        return any(_hidden_tag(x, perms) for x in sh[2].values())
    if isinstance(sh, list):
        return any(_hidden_tag(x, perms) for x in sh)
    if isinstance(sh, dict):
        return any(_hidden_tag(x, perms) for x in sh.values())
    return False


def _missing_required_permissioned(sh, perms):
    return False


OM_TYPES = ['Om', 'OmChild', 'OmGrand', 'OmU', 'OmNest', 'OmBeta', 'OmBase', 'OmMid', 'OmLeaf']
RED_TYPES = ['Red', 'RedAlias', 'RedAlias2', 'RedColl', 'RedChild', 'RedU', 'RedNest', 'RedNullable']
_T_ENC = ['stone.backends.python_rsrc.stone_serializers:json_compat_obj_encode']
_OUT = ['regexes other than the two in the annotated catalogue', 'md5 itself (G6: fixed digest under the engine)',
        'types outside the annotated catalogue', 'json_encode/json_decode string entry points']


@hx.harness(props=['C13'], targets=_T_ENC, items=OM_TYPES,
            bound='per annotated type: all ints, strings <= %d, every subset of optional fields / tag, every subset of '
                  'the declared caller classes {internal, alpha, betaTesters}' % NS, outside=_OUT, budget=(150, 600))
def omit_encode(i: I8, s: S4, b: B16, p_internal: bool, p_alpha: bool, p_beta: bool) -> bool:
    """
    pre: all(len(x) <= NS for x in s)
    post: _
    """
    try:
        dt, validator, val, sh, pool = _build(i, s, b)
    except hx.Skip:
        return True
    held = [c for c, h in zip(CALLERS, (p_internal, p_alpha, p_beta)) if h]
    try:
        j = ss.json_compat_obj_encode(validator, val, caller_permissions=Perm(held))
    except bv.ValidationError:
        # refusing to encode a value whose chosen tag the caller may not see leaks nothing
        return hx.ok(_hidden_tag(sh, held))
    if _hidden_tag(sh, held):
        return hx.ok(False)            # a tag omitted for this caller was encoded
    return hx.ok(_plain(j) == wire.ref_encode(dt, sh, perms=held))


@hx.harness(props=['C13'], targets=['stone.backends.python_rsrc.stone_serializers:json_compat_obj_decode'],
            items=OM_TYPES,
            bound='documents = encodings (all caller classes held) of every value as in omit_encode; decoded strictly '
                  'under every subset of caller classes', outside=_OUT, budget=(150, 600))
def omit_decode(i: I8, s: S4, b: B16, p_internal: bool, p_alpha: bool, p_beta: bool) -> bool:
    """
    pre: all(len(x) <= NS for x in s)
    post: _
    """
    try:
        dt, validator, val, sh, pool = _build(i, s, b)
    except hx.Skip:
        return True
    held = [c for c, h in zip(CALLERS, (p_internal, p_alpha, p_beta)) if h]
    doc = ss.json_compat_obj_encode(validator, val, caller_permissions=Perm(CALLERS))
    supplied_forbidden = _omitted_present(dt, sh, held)
    try:
        v2 = ss.json_compat_obj_decode(validator, doc, caller_permissions=Perm(held), strict=True)
    except bv.ValidationError:
        return hx.ok(supplied_forbidden)
    if supplied_forbidden:
        return hx.ok(False)            # a caller without the class supplied an omitted field / tag
    j2 = ss.json_compat_obj_encode(validator, v2, caller_permissions=Perm(held))
    return hx.ok(_plain(j2) == wire.ref_encode(dt, sh, perms=held))


@hx.harness(props=['C13'], targets=_T_ENC, items=lambda: focus_items(RED_TYPES),
            bound='per annotated type and per top-level field / tag (the other fields hold fixed valid values; leaves '
                  'deeper than one user type fixed): all ints, strings <= %d over the alphabet {a,b,x,y,space} (regexes (a)(b+) and (x)(y?)), lists <= 1/2, maps over '
                  '{k,kk}; redaction on and off; all caller classes held' % NS, outside=_OUT, budget=(200, 900),
            glue=['install_md5_stub'])
def redact(i: I8, s: S6, b: B16, should_redact: bool) -> bool:
    """
    pre: all(len(x) <= NS for x in s)
    post: _
    """
    try:
        dt, validator, val, sh, pool = _build(i, s, b, _alpha_ok)
    except hx.Skip:
        return True
    j = ss.json_compat_obj_encode(validator, val, caller_permissions=Perm(CALLERS), should_redact=should_redact)
    return hx.ok(_plain(j) == wire.ref_encode(dt, sh, perms=CALLERS, redact=should_redact))


def _plain(j):
    if isinstance(j, dict):
        return {k: _plain(v) for k, v in j.items()}
    if isinstance(j, list):
        return [_plain(v) for v in j]
    return j


def explain(fname, args):
    dt, validator, val, sh, pool = _build(args['i'], args['s'], args['b'])
    out = 'value=%r' % (val,)
    if fname == 'redact':
        j = ss.json_compat_obj_encode(validator, val, caller_permissions=Perm(CALLERS), should_redact=args['should_redact'])
        out += ' encoded=%r reference=%r' % (_plain(j), wire.ref_encode(dt, sh, perms=CALLERS, redact=args['should_redact']))
    else:
        held = [c for c, h in zip(CALLERS, (args['p_internal'], args['p_alpha'], args.get('p_beta', False))) if h]
        try:
            j = ss.json_compat_obj_encode(validator, val, caller_permissions=Perm(held))
        except Exception as e:
            j = repr(e)
        out += ' held=%r encoded=%r reference=%r' % (held, j, wire.ref_encode(dt, sh, perms=held))
    return out
