"""C08 layer 2: the plumbing between the API description and the validators in the generated classes of the
catalogue (python_types.generate_validator_constructor, Attribute.__set__, Union.__init__, generated helpers):
assigning a struct field / constructing a union member succeeds exactly when the reference predicate derived from
the stone.ir field type accepts the value; refusal is ValidationError; an accepted value reads back equal."""
from typing import Tuple

from stone.backends.python_helpers import fmt_class
from stone.backends.python_rsrc import stone_validators as bv
from stone.ir import is_bytes_type, is_struct_type, is_timestamp_type, is_union_type, is_void_type

from harness import c04_roundtrip as base
from refmodel import accept
from vlib import docgen, hx

NS = hx.tier(3, 4)
I8 = base.I8
S4 = base.S4
B32 = Tuple[bool, bool, bool, bool, bool, bool, bool, bool, bool, bool, bool, bool, bool, bool, bool, bool,
            bool, bool, bool, bool, bool, bool, bool, bool, bool, bool, bool, bool, bool, bool, bool, bool]
API = base.API
MODS = base.MODS


def _plain_type(dt, depth=0):
    """types whose Python values coincide with their JSON documents (no user types, bytes, timestamps)"""
    dt = accept.unalias(dt)
    if accept.is_nullable_type(dt) or accept.is_list_type(dt):
        return _plain_type(dt.data_type, depth + 1)
    if accept.is_map_type(dt):
        return _plain_type(dt.value_data_type, depth + 1)
    if is_struct_type(dt) or is_union_type(dt) or is_bytes_type(dt) or is_timestamp_type(dt) or is_void_type(dt):
        return False
    return True


def struct_fields():
    out = []
    for nsname in ('cat', 'cat2'):
        for dt in API.namespaces[nsname].data_types:
            if is_struct_type(dt):
                for f in dt.fields:
                    if _plain_type(f.data_type):
                        out.append('%s.%s.%s' % (nsname, dt.name, f.name))
    return out


def union_members():
    out = []
    for nsname in ('cat', 'cat2'):
        for dt in API.namespaces[nsname].data_types:
            if is_union_type(dt):
                for f in dt.fields:
                    if not f.catch_all and not is_void_type(f.data_type) and _plain_type(f.data_type):
                        out.append('%s.%s.%s' % (nsname, dt.name, f.name))
    return out


def _lookup(item):
    nsname, tname, fname = item.split('.')
    dt = API.namespaces[nsname].data_type_by_name[tname]
    f = [x for x in dt.fields if x.name == fname][0]
    return dt, f, getattr(MODS[nsname], fmt_class(tname))


def _same(got, want, dt):
    dt = accept.unalias(dt)
    if accept.is_nullable_type(dt):
        return got is None if want is None else _same(got, want, dt.data_type)
    if accept.is_list_type(dt):
        return isinstance(got, list) and len(got) == len(want) and all(_same(g, w, dt.data_type) for g, w in zip(got, want))
    if accept.is_map_type(dt):
        return isinstance(got, dict) and set(got) == set(want) and all(_same(got[k], want[k], dt.value_data_type) for k in want)
    if accept.is_float_type(dt):
        return isinstance(got, float) and got == want
    return got == want and type(got) is type(want)


_TG = ['stone.backends.python_rsrc.stone_base:Attribute.__set__']
_OUT = ['fields of user-defined, Bytes and Timestamp types (class checks are a finite choice, see user_typed)',
        'values more than one structural mutation away from the valid shape']


@hx.harness(props=['C08'], targets=_TG, items=struct_fields,
            bound='per struct field of the catalogue whose type is built from primitives, lists, maps and nullables: every '
                  'value of the valid shape (all ints, strings <= %d, lists <= 1/2, maps over {k,kk}) and every value one '
                  'mutation away (wrong kind None/bool/int/str/[]/{} at any position)' % NS, outside=_OUT,
            budget=(120, 400), glue=['pin_real_floats'])
def field_assign(i: I8, s: S4, b: B32) -> bool:
    """
    pre: all(len(x) <= NS for x in s)
    post: _
    """
    dt, f, cls = _lookup(hx.ITEM)
    pool = hx.Pool(ints=i, strs=s, bools=b)
    try:
        v = docgen.DocGen(pool, mutations=1, max_list=hx.tier(1, 2)).gen(f.data_type)
    except hx.Skip:
        return True
    verdict = accept.ref_validate(f.data_type, v, True)
    inst = cls()
    try:
        setattr(inst, f.name, v)
    except bv.ValidationError:
        return hx.ok(verdict != accept.ACC)
    if verdict == accept.REJ:
        return hx.ok(False)
    if verdict == accept.UNS:
        return True
    return hx.ok(_same(getattr(inst, f.name), v, f.data_type))


@hx.harness(props=['C08'], targets=['stone.backends.python_rsrc.stone_base:Union.__init__'], items=union_members,
            bound='per union member of the catalogue with a Void or primitive-built type: same value space as field_assign, '
                  'through the generated constructor helper (classmethod / ready instance)', outside=_OUT,
            budget=(120, 400), glue=['pin_real_floats'])
def union_construct(i: I8, s: S4, b: B32) -> bool:
    """
    pre: all(len(x) <= NS for x in s)
    post: _
    """
    dt, f, cls = _lookup(hx.ITEM)
    if is_void_type(f.data_type):
        inst = getattr(cls, f.name)
        return hx.ok(isinstance(inst, cls) and inst._tag == f.name and inst._value is None
                     and getattr(inst, 'is_' + f.name)())
    pool = hx.Pool(ints=i, strs=s, bools=b)
    try:
        v = docgen.DocGen(pool, mutations=1, max_list=hx.tier(1, 2)).gen(f.data_type)
    except hx.Skip:
        return True
    verdict = accept.ref_validate(f.data_type, v, True)
    try:
        inst = getattr(cls, f.name)(v)
    except bv.ValidationError:
        return hx.ok(verdict != accept.ACC)
    if verdict == accept.REJ:
        return hx.ok(False)
    if verdict == accept.UNS:
        return True
    return hx.ok(inst._tag == f.name and getattr(inst, 'is_' + f.name)() and
                 _same(getattr(inst, 'get_' + f.name)(), v, f.data_type))


USER_CASES = ['cat.Nest.p', 'cat.Nest.q', 'cat.Nest.m', 'cat.HasUnions.u', 'cat.HasUnions.ch', 'cat.HasUnions.bu',
              'cat.UsesAliases.pa', 'cat.UsesAliases.bu']


@hx.harness(props=['C08'], targets=_TG, items=USER_CASES,
            bound='user-typed struct fields: value = instance of the declared class / a subclass / the parent class / an '
                  'unrelated struct / a union / None / an int (finite choice, enumerated by the solver)',
            budget=(60, 120))
def user_typed(k: int) -> bool:
    """
    pre: 0 <= k <= 7
    post: _
    """
    dt, f, cls = _lookup(hx.ITEM)
    cat, cat2 = MODS['cat'], MODS['cat2']
    ft = accept.unalias(f.data_type)
    nullable = accept.is_nullable_type(ft)
    if nullable:
        ft = accept.unalias(ft.data_type)
    target = getattr(MODS[ft.namespace.name], fmt_class(ft.name))
    candidates = [cat.Point(1, 2), cat.Mid(1, True), cat.Leaf(1, True, 'e'), cat.Base(1), cat.Uc.v0, cat.UcChild.w,
                  cat2.BaseU.z, None]
    v = candidates[k] if k < len(candidates) else 5
    if v is None:
        expect = nullable
    elif is_struct_type(ft):
        expect = isinstance(v, target)                    # subclasses allowed for structs
    else:
        expect = issubclass(target, type(v)) and hasattr(v, '_tag')    # parent unions allowed where a child is expected
    inst = cls()
    try:
        setattr(inst, f.name, v)
    except bv.ValidationError:
        return hx.ok(not expect)
    return hx.ok(expect and (getattr(inst, f.name) is v))


UNION_USER_CASES = ['cat.UO.pt', 'cat.UO.ptn', 'cat.UO.u', 'cat.UO.un', 'cat.UO.o', 'cat.UO.e', 'cat.UO.en', 'cat.UO.r',
                    'cat.UCChild.extra', 'cat.UN.w', 'cat.UN.k']


@hx.harness(props=['C08'], targets=['stone.backends.python_rsrc.stone_base:Union.__init__'], items=UNION_USER_CASES,
            bound='user-typed union members (structs incl. all-optional and empty ones, unions; nullable or not): payload = '
                  'instance of the declared class / a subclass / an unrelated struct / a union / None / an int (finite '
                  'choice, enumerated by the solver), through the generated classmethod', budget=(60, 120))
def union_user_typed(k: int) -> bool:
    """
    pre: 0 <= k <= 11
    post: _
    """
    dt, f, cls = _lookup(hx.ITEM)
    cat, cat2 = MODS['cat'], MODS['cat2']
    ft = accept.unalias(f.data_type)
    nullable = accept.is_nullable_type(ft)
    if nullable:
        ft = accept.unalias(ft.data_type)
    target = getattr(MODS[ft.namespace.name], fmt_class(ft.name))
    candidates = [cat.Point(1, 2), cat.Opt(), cat.Empty(), cat.File('n', 1), cat.Res('n'), cat.Wrap(k=1), cat.Uc.v0,
                  cat.UcChild.w, cat2.BaseU.z, None, 5]
    v = candidates[k] if k < len(candidates) else ''
    if v is None:
        expect = nullable
    elif is_struct_type(ft):
        expect = isinstance(v, target)
    else:
        expect = issubclass(target, type(v)) and hasattr(v, '_tag')
    try:
        inst = getattr(cls, f.name)(v)
    except bv.ValidationError:
        return hx.ok(not expect)
    return hx.ok(expect and inst._tag == f.name and inst._value is v)


# ---------------------------------------------------------------- patterns, concretely enumerated strings
ALPHABET = ('a', 'b', '1', ':', '\\', '\n', 'C', ' ')
PAT_LEN = hx.tier(3, 4)
B40 = Tuple[bool, bool, bool, bool, bool, bool, bool, bool, bool, bool, bool, bool, bool, bool, bool, bool, bool, bool, bool, bool,
            bool, bool, bool, bool, bool, bool, bool, bool, bool, bool, bool, bool, bool, bool, bool, bool, bool, bool, bool, bool]


def pattern_fields():
    out = []
    for nsname in ('cat', 'cat2'):
        for dt in API.namespaces[nsname].data_types:
            if is_struct_type(dt):
                for f in dt.fields:
                    t = accept.unalias(f.data_type)
                    if accept.is_nullable_type(t):
                        t = accept.unalias(t.data_type)
                    if accept.is_string_type(t) and t.pattern:
                        out.append('%s.%s.%s' % (nsname, dt.name, f.name))
    return out


@hx.harness(props=['C08'], targets=_TG, items=pattern_fields,
            bound='per pattern-constrained string field of the catalogue: EVERY string of length <= %d over the alphabet '
                  '{a, b, 1, :, backslash, newline, C, space}, each made concrete on its path (the engine enumerates them; '
                  'the real `re` decides): whole-string match semantics incl. trailing newline and backslash escapes' % PAT_LEN,
            budget=(200, 600))
def pattern_concrete(b: B40) -> bool:
    """
    post: _
    """
    import re
    dt, f, cls = _lookup(hx.ITEM)
    pool = hx.Pool(bools=b)
    n = pool.choice(PAT_LEN + 1)
    v = ''.join(ALPHABET[pool.choice(len(ALPHABET))] for _ in range(n))
    t = accept.unalias(f.data_type)
    if accept.is_nullable_type(t):
        t = accept.unalias(t.data_type)
    expect = (re.fullmatch(t.pattern, v) is not None
              and (t.min_length is None or len(v) >= t.min_length) and (t.max_length is None or len(v) <= t.max_length))
    inst = cls()
    try:
        setattr(inst, f.name, v)
    except bv.ValidationError:
        return hx.ok(not expect)
    return hx.ok(expect and getattr(inst, f.name) == v)
