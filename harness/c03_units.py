"""C03 unit harnesses on regex-free frontend actions that see user text: the string-literal action of the lexer,
doc_unwrap, the route-version parser action and the route-name parser used by doc references."""
import re
import types

from stone.frontend import lexer as lx
from stone.frontend import ir_generator as irg
from stone.ir import data_types as dtm
from vlib import hx

N = hx.tier(4, 5)


def _alpha(s):
    return re.fullmatch('[a n t\\\\"\\n]*', s) is not None


@hx.harness(props=['C03'], targets=['stone.frontend.lexer:Lexer.t_ANY_STRING'],
            bound='string literal body <= %d chars over {a, n, t, space, backslash, double quote, newline} at indentation '
                  'level 0..2' % N, budget=(200, 600))
def string_action(body: str, level: int) -> bool:
    """
    pre: len(body) <= N and _alpha(body)
    pre: 0 <= level <= 2
    post: _
    """
    lexer = lx.Lexer()
    lexer.cur_indent = level
    tok = lx._create_token('STRING', '"' + body + '"', 1, 0)
    tok.lexer = types.SimpleNamespace(lineno=1)
    out = lexer.t_ANY_STRING(tok)
    # the action never raises and yields a string no longer than its input
    return hx.ok(out is tok and isinstance(tok.value, str) and len(tok.value) <= len(body))


@hx.harness(props=['C03'], targets=['stone.ir.data_types:doc_unwrap'],
            bound='doc text <= %d chars over {a, space, newline}' % (N + 1), budget=(200, 600))
def doc_unwrap_total(doc: str) -> bool:
    """
    pre: len(doc) <= N + 1 and re.fullmatch('[a \\n]*', doc) is not None
    post: _
    """
    out = dtm.doc_unwrap(doc)
    return hx.ok(isinstance(out, str) and len(out) <= len(doc))


@hx.harness(props=['C03'], targets=['stone.frontend.ir_generator:parse_route_name_and_version'],
            bound='route reference text <= %d chars over {r, :, 1, -, space}' % N, budget=(200, 600))
def route_ref(text: str) -> bool:
    """
    pre: len(text) <= N and re.fullmatch('[r:1 -]*', text) is not None
    post: _
    """
    try:
        name, version = irg.parse_route_name_and_version(text)
    except ValueError:
        # documented failure mode of this helper (converted into a spec error by its caller)
        return hx.ok(':' in text)
    return hx.ok(isinstance(name, str) and isinstance(version, int))
