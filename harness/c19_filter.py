"""C19 (partial): semantics of --filter-by-route-attr expressions.  The real parser parses each concrete
expression (import time); FilterExprConjunction/Predicate.eval run on symbolic attribute values and are
compared with an independent evaluator (own precedence-climbing parser; `and` binds tighter than `or`;
absent attribute == null)."""
import itertools
import re
import types
from typing import Tuple, Union

from stone.cli_helpers import parse_route_attr_filter
from vlib import hx

V = Union[None, bool, int, str]

ATOMS = ['a="x"', 'b=1', 'c=true', 'a!=null', 'b!=2', 'c!=false', 'a=null', 'b=-3', 'c=null', 'a!="y z"',
         'b=1.5', 'a=""', 'b=9007199254740993', 'b!=1e2',
         'order=1', 'android!=true', 'd="  "', 'origin=null']
SKELETONS_Q = ['{0}', '{0} and {1}', '{0} or {1}', '{0} and {1} or {2}', '{0} or {1} and {2}',
               '({0} or {1}) and {2}', '{0} and ({1} or {2})', '({0})', '(({0} and {1}))',
               '{0} or {1} or {2}', '{0} and {1} and {2}']
SKELETONS_T = SKELETONS_Q + ['{0} or {1} and {2} or {3}', '{0} and {1} or {2} and {3}', '({0} or {1}) and ({2} or {3})',
                             '{0} and ({1} or {2} and {3})', '({0} or {1} and {2}) and {3}', '{0} or ({1} or {2}) and {3}',
                             '{0} and {1} or {2} or {3}', '{0} or {1} or {2} and {3}']


def expressions():
    sk = SKELETONS_T if hx.TIER == 'thorough' else SKELETONS_Q
    out = []
    rot = itertools.cycle(range(len(ATOMS)))
    reps = 6 if hx.TIER == 'thorough' else 3
    for s in sk:
        n = len(set(re.findall(r'\{(\d)\}', s)))
        for _ in range(reps):
            start = next(rot)
            atoms = [ATOMS[(start + 5 * k) % len(ATOMS)] for k in range(n)]
            e = s.format(*atoms)
            if e not in out:
                out.append(e)
    return out


# ---- independent reference: tokenizer + precedence climbing ------------------------------------------
_TOK = re.compile(r'\s*(?:(\()|(\))|(!=|=)|("(?:[^"\\]|\\.)*")|(-?\d+(?:\.\d*(?:e-?\d+)?|e-?\d+))|(-?\d+)|([A-Za-z_][A-Za-z0-9_-]*))')


def _tokens(text):
    pos, out = 0, []
    while pos < len(text):
        m = _TOK.match(text, pos)
        if not m:
            raise ValueError(text[pos:])
        pos = m.end()
        lp, rp, op, s, f, i, ident = m.groups()
        if lp:
            out.append(('(', None))
        elif rp:
            out.append((')', None))
        elif op:
            out.append(('op', op))
        elif s is not None:
            out.append(('lit', s[1:-1]))
        elif f is not None:
            out.append(('lit', float(f)))
        elif i is not None:
            out.append(('lit', int(i)))
        elif ident in ('and', 'or'):
            out.append((ident, None))
        elif ident in ('true', 'false'):
            out.append(('lit', ident == 'true'))
        elif ident == 'null':
            out.append(('lit', None))
        else:
            out.append(('id', ident))
    return out


def _parse(tokens):
    pos = [0]

    def peek():
        return tokens[pos[0]][0] if pos[0] < len(tokens) else None

    def take():
        t = tokens[pos[0]]
        pos[0] += 1
        return t

    def primary():
        if peek() == '(':
            take()
            e = disj()
            assert take()[0] == ')'
            return e
        ident = take()
        op = take()
        lit = take()
        assert ident[0] == 'id' and op[0] == 'op' and lit[0] == 'lit'
        return ('atom', ident[1], op[1], lit[1])

    def conj():
        e = primary()
        while peek() == 'and':
            take()
            e = ('and', e, primary())
        return e

    def disj():
        e = conj()
        while peek() == 'or':
            take()
            e = ('or', e, conj())
        return e
    e = disj()
    assert pos[0] == len(tokens)
    return e


def _kind(v):
    if v is None:
        return 'null'
    if isinstance(v, bool):
        return 'bool'
    if isinstance(v, (int, float)):
        return 'num'
    return 'str'


def _ref_eval(e, attrs):
    """returns True/False, or None when the comparison is across kinds that Python equates (unspecified)"""
    if e[0] == 'atom':
        _, name, op, lit = e
        val = attrs.get(name, None)
        kv, kl = _kind(val), _kind(lit)
        if {kv, kl} == {'bool', 'num'}:
            return None
        eq = (kv == kl) and (val == lit)
        return eq if op == '=' else not eq
    l = _ref_eval(e[1], attrs)
    r = _ref_eval(e[2], attrs)
    if l is None or r is None:
        return None
    return (l and r) if e[0] == 'and' else (l or r)


PARSED = {}
for _e in expressions():
    _f, _errs = parse_route_attr_filter(_e)
    PARSED[_e] = (_f, _parse(_tokens(_e)), _errs)      # a listed (well-formed) expression that does not parse is a violation


def _names(e):
    if e[0] == 'atom':
        return {e[1]}
    return _names(e[1]) | _names(e[2])


I3 = Tuple[int, int, int, int]
S3 = Tuple[str, str, str, str]
B12 = Tuple[bool, bool, bool, bool, bool, bool, bool, bool, bool, bool, bool, bool, bool, bool, bool, bool]


@hx.harness(props=['C19'], targets=['stone.cli_helpers:FilterExprPredicate.eval'], items=expressions,
            bound='fixed list of expression skeletons (<= 3/4 atoms, and/or/parentheses, literals of every kind); '
                  'attribute values None|bool|int|str (all ints, strings <= 3 chars) and presence of each attribute symbolic',
            outside=['malformed expressions (ply lexer on symbolic text)', '-w/-b/-a pruning in cli.main',
                     'comparisons across kinds that Python equates (True == 1)', 'float-valued attributes'],
            budget=(60, 120), glue=['pin_real_floats'])
def filter_eval(i: I3, s: S3, b: B12) -> bool:
    """
    pre: all(len(x) <= 3 for x in s)
    post: _
    """
    flt, ref, errs = PARSED[hx.ITEM]
    if errs or flt is None:
        return hx.ok(False)
    pool = hx.Pool(ints=i, strs=s, bools=b)
    attrs = {}
    for name in sorted(_names(ref)):
        if pool.bool():
            attrs[name] = pool.j()
    want = _ref_eval(ref, attrs)
    if want is None:
        return True
    route = types.SimpleNamespace(attrs=attrs)
    got = flt.eval(route)
    return hx.ok(bool(got) == want)



# ---------------------------------------------------------------- malformed expressions (token-level edits)
def _token_texts(text):
    pos, out = 0, []
    while pos < len(text):
        m = _TOK.match(text, pos)
        out.append(m.group(0).strip())
        pos = m.end()
    return out


def _well_formed(text):
    try:
        _parse(_tokens(text))
    except (ValueError, AssertionError, IndexError):
        return False
    return True


ILLEGAL = ['#', '@', '$', '&', ';', '!', '"', '\\', '%', '|']
EDITS = ['delete', 'duplicate', 'swap', 'illegal-before', 'illegal-glued', 'to-and', 'to-eq', 'to-lit', 'to-par']
MAXTOK = 19


def _edit(tokens, kind, pos, c):
    t = list(tokens)
    if kind == 'delete':
        del t[pos]
    elif kind == 'duplicate':
        t.insert(pos, t[pos])
    elif kind == 'swap':
        if pos + 1 >= len(t):
            return None
        t[pos], t[pos + 1] = t[pos + 1], t[pos]
    elif kind == 'illegal-before':
        t.insert(pos, ILLEGAL[c])
    elif kind == 'illegal-glued':
        t[pos] = t[pos] + ILLEGAL[c]
    elif kind == 'to-and':
        t[pos] = 'and'
    elif kind == 'to-eq':
        t[pos] = '='
    elif kind == 'to-lit':
        t[pos] = 'null'
    elif kind == 'to-par':
        t[pos] = '(' if c % 2 else ')'
    return ' '.join(t)


@hx.harness(props=['C19'], targets=['stone.cli_helpers:FilterExprParser.parse'], items=expressions,
            bound='every single token-level edit of each listed expression: delete / duplicate a token, swap two neighbours, '
                  'insert one of %s before or glued to a token, replace a token by and / = / null / a parenthesis '
                  '(finite domain, enumerated by the solver; the real ply parser runs on the concrete text): errors are '
                  'reported exactly when the independent parser rejects the text' % ILLEGAL,
            outside=['edits of more than one token', 'the wording of the error'], budget=(90, 200))
def malformed(kind: int, pos: int, c: int) -> bool:
    """
    pre: 0 <= kind < len(EDITS) and 0 <= pos < MAXTOK and 0 <= c < len(ILLEGAL)
    post: _
    """
    kind, pos, c = int(kind), int(pos), int(c)
    toks = _token_texts(hx.ITEM)
    if pos >= len(toks):
        return True
    if EDITS[kind] not in ('illegal-before', 'illegal-glued', 'to-par') and c:
        return True
    if EDITS[kind] == 'to-par' and c > 1:
        return True
    text = _edit(toks, EDITS[kind], pos, c)
    if text is None:
        return True
    from harness.fe_common import no_tracing
    with no_tracing():                  # the edited text is concrete on every path: run the real parser at full speed
        try:
            ok = _well_formed(text)
        except Exception:
            ok = False
        flt, errs = parse_route_attr_filter(text)
    if ok:
        return hx.ok(not errs and flt is not None)
    return hx.ok(bool(errs))
