"""Frontend, FINITE-domain structural slots (the solver only enumerates the domain; stated as such): nullability
through alias chains, open/closed union inheritance and the implicit catch-all, patch targets.

Rules (lang_ref.rst): a reference to a type that is (an alias of ... of) a nullable type cannot be marked nullable
again; a closed union cannot extend an open one; an open union has exactly one catch-all `other` (its own or the one
it inherits from an open ancestor); a patch must target a definition of the same kind (struct / open union / closed
union)."""
from stone.frontend import ast as A

from harness import fe_common as fe
from vlib import hx

# ---------------------------------------------------------------- nullable through alias chains
NULL_TEMPLATE = '''namespace ns

alias A0 = String
alias A1 = A0
alias N0 = String?
alias N1 = N0
alias N2 = N1

struct T
    x Int32

alias TN = T?
alias TN1 = TN

struct S
    f %s%s
'''
NAMES = ['String', 'A0', 'A1', 'N0', 'N1', 'N2', 'T', 'TN', 'TN1']
NULLABLE_ALIASES = ('N0', 'N1', 'N2', 'TN', 'TN1')
NULL_BASE = fe.parse(NULL_TEMPLATE % ('String', ''))
assert fe.run_text([('t.stone', NULL_TEMPLATE % ('String', ''))])[0] == 'ok'


@hx.harness(props=['C01', 'C02', 'C03'], targets=['stone.frontend.ir_generator:IRGenerator._resolve_type'],
            bound='field type from %s (aliases of depth 0-3 of nullable and non-nullable types), marked nullable or not, '
                  'directly or as List item (finite domain)' % NAMES, budget=(60, 200))
def nullable_chain(k: int, q: bool, in_list: bool) -> bool:
    """
    pre: 0 <= k < len(NAMES)
    post: _
    """
    name = NAMES[k]
    asts = fe.clone(NULL_BASE)
    s = [n for n in asts if getattr(n, 'name', None) == 'S'][0]
    ref = A.AstTypeRef('t.stone', 18, 0, name, ([], {}), q, None)
    if in_list:
        ref = A.AstTypeRef('t.stone', 18, 0, 'List', ([ref], {}), False, None)
    s.fields[0].type_ref = ref
    oracle = 'reject' if (q and name in NULLABLE_ALIASES) else 'accept'
    text = ('List(%s%s)' % (name, '?' if q else '')) if in_list else name

    def fidelity(api):
        from stone.ir import is_nullable_type, unwrap_aliases
        dt = api.namespaces['ns'].data_type_by_name['S'].fields[0].data_type
        if in_list:
            dt = dt.data_type
        return is_nullable_type(dt) == q           # the declared `?` and nothing else makes the reference nullable
    return fe.decide([asts], lambda: [('t.stone', NULL_TEMPLATE % (text, '' if in_list or not q else '?'))], oracle,
                     fidelity)


# ---------------------------------------------------------------- union inheritance and the implicit catch-all
UNION_TEMPLATE = '''namespace ns

%(gk)s G
    g0

%(pk)s P%(pext)s
    p0

%(ck)s C%(cext)s
    c0
    c1 Int32
'''
KINDS = ['union', 'union_closed']


@hx.harness(props=['C01', 'C02', 'C03'], targets=['stone.frontend.ir_generator:IRGenerator._populate_union_type_attributes'],
            bound='three unions G <- P <- C, each open or closed, P extending G or not, C extending P or not (finite)',
            budget=(60, 200))
def union_chain(g: bool, p: bool, c: bool, p_ext: bool, c_ext: bool) -> bool:
    """
    post: _
    """
    g, p, c, p_ext, c_ext = bool(g), bool(p), bool(c), bool(p_ext), bool(c_ext)      # concrete on every path
    kinds = {'G': 'union_closed' if g else 'union', 'P': 'union_closed' if p else 'union',
             'C': 'union_closed' if c else 'union'}
    text = (UNION_TEMPLATE.replace('%(gk)s', kinds['G']).replace('%(pk)s', kinds['P']).replace('%(ck)s', kinds['C'])
            .replace('%(pext)s', ' extends G' if p_ext else '').replace('%(cext)s', ' extends P' if c_ext else ''))
    with fe.no_tracing():
        asts = fe.parse(text)
    closed = {'G': g, 'P': p, 'C': c}
    parent = {'G': None, 'P': 'G' if p_ext else None, 'C': 'P' if c_ext else None}
    # a closed union cannot extend an open one
    bad = any(closed[u] and parent[u] and not closed[parent[u]] for u in 'GPC')
    oracle = 'reject' if bad else 'accept'

    def fidelity(api):
        ok = True
        declared = {'G': ['g0'], 'P': ['p0'], 'C': ['c0', 'c1']}
        for u in 'GPC':
            dt = api.namespaces['ns'].data_type_by_name[u]
            chain, x = [], u
            while x:
                chain.insert(0, x)
                x = parent[x]
            want = [t for y in chain for t in declared[y]]
            got = [f.name for f in dt.all_fields]
            others = [f for f in dt.all_fields if f.name == 'other']
            # declared tags in order (ancestors first); exactly one catch-all iff the union is open
            ok = ok and [n for n in got if n != 'other'] == want
            ok = ok and len(others) == (0 if closed[u] else 1) and all(f.catch_all for f in others)
            ok = ok and dt.closed == closed[u]
        return ok
    return fe.decide([asts], lambda: [('t.stone', text)], oracle, fidelity)


# ---------------------------------------------------------------- patch targets
PATCH_TEMPLATE = '''namespace ns

annotation Dep = Deprecated()

alias AL = String

struct ST
    a Int32

union UO
    o0

union_closed UC
    c0

route rt (ST, Void, Void)

%s
'''
PATCH_KINDS = ['patch struct %s\n    pz Int32\n', 'patch union %s\n    pz\n', 'patch union_closed %s\n    pz\n']
TARGETS = ['ST', 'UO', 'UC', 'AL', 'rt', 'Dep', 'zz']


@hx.harness(props=['C01', 'C03'], targets=['stone.frontend.ir_generator:IRGenerator._merge_patches'],
            bound='a patch of kind struct / union / union_closed whose target name ranges over a struct, an open union, a '
                  'closed union, an alias, a route, an annotation and an undefined name (finite)', budget=(60, 200))
def patch_target(kind: int, t: int) -> bool:
    """
    pre: 0 <= kind < 3 and 0 <= t < len(TARGETS)
    post: _
    """
    kind, t = int(kind), int(t)
    text = PATCH_TEMPLATE.replace('%s', PATCH_KINDS[kind].replace('%s', TARGETS[t]))
    with fe.no_tracing():
        asts = fe.parse(text)
    good = (kind, TARGETS[t]) in ((0, 'ST'), (1, 'UO'), (2, 'UC'))
    return fe.decide([asts], lambda: [('t.stone', text)], 'accept' if good else 'reject')


# ---------------------------------------------------------------- same-named types in two namespaces, either file order
X_COMMON = '''namespace common

struct Entry
    id String

union Tag
    t0
    te Entry

struct Only
    o Int32

struct Node
    entry Entry
    entries List(Entry)
    me Map(String, Entry)?
    only Only?

union UN
    ue Entry
    ut Tag
    uo Only
'''
X_FILES = '''namespace files

import common

struct Entry
    size UInt64

union Tag
    f0

%s
'''
X_USES = [
    'struct Folder extends common.Node\n    own Entry\n    t Tag\n',
    'union FU extends common.UN\n    own Entry\n    t Tag\n',
    'struct Folder\n    n common.Node\n    own Entry\n    t Tag\n',
    'alias AN = common.Node\nstruct Folder\n    n AN\n    own Entry\n    t Tag\n',
    'struct Folder\n    n List(common.Node)\n    u common.UN?\n    own Entry\n    t Tag\n',
    'struct Mid extends common.Node\n    m Entry\nstruct Folder extends Mid\n    own Entry\n    t Tag\n',
]


def _owner_of(dt):
    from stone.ir import is_list_type, is_map_type, is_nullable_type, is_alias
    while True:
        if is_nullable_type(dt) or is_list_type(dt):
            dt = dt.data_type
        elif is_map_type(dt):
            dt = dt.value_data_type
        elif is_alias(dt) and dt.name == 'AN':
            dt = dt.data_type
        else:
            return dt


@hx.harness(props=['C01', 'C02', 'C03'], targets=['stone.frontend.ir_generator:IRGenerator._resolve_type'],
            bound='two namespaces that both declare Entry and Tag; the importing one uses the other through extends (struct, '
                  'union, two levels), a field, an alias, a List / nullable; both orders of the spec list (finite domain)',
            budget=(60, 200))
def cross_namespace(use: int, files_first: bool) -> bool:
    """
    pre: 0 <= use < len(X_USES)
    post: _
    """
    use = int(use)
    files_first = bool(files_first)
    specs = [('files.stone', X_FILES % X_USES[use]), ('common.stone', X_COMMON)]
    if not files_first:
        specs.reverse()
    with fe.no_tracing():
        asts = [fe.parse(t, p) for p, t in specs]

    def fidelity(api):
        # every member declared in a namespace with an unqualified type name is typed by THAT namespace's definition
        for nsname in ('common', 'files'):
            ns = api.namespaces[nsname]
            for dt in ns.data_types:
                for f in dt.fields:
                    target = _owner_of(f.data_type)
                    if getattr(target, 'name', None) in ('Entry', 'Tag'):
                        if target is not ns.data_type_by_name[target.name]:
                            return False
                    if f.name in ('n', 'u') and target.namespace.name != 'common':
                        return False
        return True
    return fe.decide(asts, lambda: specs, 'accept', fidelity)
