"""Frontend slot (d): route attribute values against the stone_cfg.Route schema.

Rules (lang_ref.rst "Attributes"): attributes are typed by the struct stone_cfg.Route; a value must fit the
attribute's type; an attribute with a default (or nullable) may be omitted and then reads as its default (null);
a value can reference a union tag with void type; unknown attribute names are rejected.  C02: route.attrs carries
exactly the declared value, schema defaults for absent attributes.
"""
import re
from typing import Union

from stone.frontend import ast as A
from stone.ir import TagRef

from harness import fe_common as fe
from vlib import hx

V = Union[None, bool, int, str]
NSTR = hx.tier(3, 4)

COMMON = '''namespace common

union Lvl
    lo
    hi
    n Int32

struct Inner
    x Int32
'''
CFG = '''namespace stone_cfg

import common

struct Route
    i Int32(min_value=0, max_value=9) = 1
    u UInt64?
    s String(max_length=3)?
    p String(pattern="[a-z]+") = "ab"
    b Boolean = false
    f Float64?
    req String
    lv common.Lvl = lo
    olv common.Lvl?
    li List(Int32)?
    st common.Inner?
    ts Timestamp("%Y")?
    byt Bytes?
'''
SPEC = '''namespace ns

struct S
    f Int32

route r (S, Void, Void)
    attrs
        req = "x"
%s
route r2 (S, Void, Void)
    attrs
        req = "y"
'''
BASE = [fe.parse(COMMON, 'common.stone'), fe.parse(CFG, 'cfg.stone'), fe.parse(SPEC % '        i = 2\n', 't.stone')]
assert fe.run_text([('common.stone', COMMON), ('cfg.stone', CFG), ('t.stone', SPEC % '')])[0] == 'ok'

DEFAULTS = {'i': 1, 'u': None, 's': None, 'p': 'ab', 'b': False, 'f': None, 'lv': 'lo', 'olv': None, 'li': None,
            'st': None, 'ts': None, 'byt': None}
RULES = {'i': ('int', 0, 9), 'u': ('int', 0, 2**64 - 1), 's': ('str', 3, None), 'p': ('str', None, '[a-z]+'),
         'b': ('bool',), 'f': ('float',), 'req': ('str', None, None), 'lv': ('tag',), 'olv': ('tag',),
         'li': ('none',), 'st': ('none',), 'zz': ('unknown',), 'ts': ('text',), 'byt': ('text',)}
NULLABLE = ('u', 's', 'f', 'olv', 'ts', 'byt')


def oracle_for(attr, v):
    kind = RULES[attr][0]
    if kind in ('unknown', 'none'):
        return 'reject'
    if v is None:
        return 'accept' if attr in NULLABLE else 'reject'
    if isinstance(v, A.AstTagRef):
        if kind != 'tag':
            return 'reject'
        if v.tag == 'other':
            return 'unspec'
        return 'accept' if v.tag in ('lo', 'hi') else 'reject'
    if kind == 'tag':
        return 'reject'
    if kind == 'int':
        if isinstance(v, bool):
            return 'unspec'
        if not isinstance(v, int):
            return 'reject'
        return 'accept' if RULES[attr][1] <= v <= RULES[attr][2] else 'reject'
    if kind == 'float':
        if isinstance(v, bool):
            return 'unspec'
        if isinstance(v, int) and abs(v) >= 2**53:
            return 'unspec'               # not exactly representable / may exceed the float range
        return 'accept' if isinstance(v, (int, float)) else 'reject'
    if kind == 'bool':
        return 'accept' if isinstance(v, bool) else 'reject'
    if kind == 'text':
        return 'unspec' if isinstance(v, str) else 'reject'
    if kind == 'str':
        if not isinstance(v, str):
            return 'reject'
        if RULES[attr][1] is not None and len(v) > RULES[attr][1]:
            return 'reject'
        if RULES[attr][2] is not None and re.fullmatch(RULES[attr][2], v) is None:
            return 'reject'
        return 'accept'
    raise AssertionError(kind)


def _asts(attr, present, v):
    asts = fe.clone(BASE)
    r = [n for n in asts[2] if isinstance(n, A.AstRouteDef) and n.name == 'r'][0]
    keep = [a for a in r.attrs if a.name == 'req' and attr != 'req']
    if present:
        keep.append(A.AstAttrField('t.stone', 9, 0, attr, v))
    r.attrs = keep
    return asts


def _text(attr, present, v):
    lines = '' if attr != 'req' else None
    body = ''
    if present:
        body = '        %s = %s\n' % (attr, v.tag if isinstance(v, A.AstTagRef) else fe.lit(v))
    spec = SPEC % body
    if attr == 'req':
        spec = spec.replace('        req = "x"\n', '', 1)
        if not present:
            spec = spec.replace('    attrs\n', '', 1)
    return [('common.stone', COMMON), ('cfg.stone', CFG), ('t.stone', spec)]


def _fidelity(attr, present, v):
    def check(api):
        routes = {r.name: r for r in api.namespaces['ns'].routes}
        attrs = routes['r'].attrs
        for name, dflt in DEFAULTS.items():
            if name == attr and present:
                continue
            got = attrs[name]
            if name == 'lv':
                if not (isinstance(got, TagRef) and got.tag_name == 'lo'):
                    return False
            elif got != dflt or type(got) is not type(dflt):
                return False
        if attr != 'req' and attrs['req'] != 'x':
            return False
        if routes['r2'].attrs['req'] != 'y' or routes['r2'].attrs['i'] != 1:
            return False
        if not present:
            return True
        got = attrs[attr]
        if isinstance(v, A.AstTagRef):
            return isinstance(got, TagRef) and got.tag_name == v.tag and got.union_data_type.name == 'Lvl'
        if v is None:
            return got is None
        return got == v and type(got) is type(v)
    return check


def _decide(attr, present, v):
    oracle = oracle_for(attr, v) if present else ('reject' if attr == 'req' else 'accept')
    return fe.decide(_asts(attr, present, v), lambda: _text(attr, present, v), oracle, _fidelity(attr, present, v))


def _str_ok(v):
    return not isinstance(v, str) or (len(v) <= NSTR and re.fullmatch('[ab1 "\\\\]*', v) is not None)


_TG = ['stone.frontend.ir_generator:IRGenerator._populate_route_attributes_helper']
_OUT = ['schemas other than the template stone_cfg.Route', 'Bytes / Timestamp attributes', 'booleans as numbers',
        'syntax-level errors', 'more than one symbolic attribute at a time']
ATTRS = list(RULES)
ITEM = hx.ITEM if hx.ITEM in RULES else 'i'


def _items():
    if hx.ASPECT == 'C02':
        return [a for a in ATTRS if RULES[a][0] not in ('none', 'unknown', 'text')]
    return ATTRS


@hx.harness(props=['C01', 'C02', 'C03'], targets=_TG, items=_items,
            bound='value of one route attribute (present or absent): null, bool, any int, string <= %d chars over '
                  '{a,b,1,space,",\\}; schema with bounded int, nullable ints/strings/floats, pattern string, boolean, '
                  'required string, union-typed (with default / nullable), List- and struct-typed attributes' % NSTR,
            outside=_OUT, budget=(120, 400))
def literal_attr(present: bool, v: V) -> bool:
    """
    pre: _str_ok(v)
    pre: RULES[ITEM][0] != 'text' or not isinstance(v, str)
    post: _
    """
    return _decide(hx.ITEM, present, v)


@hx.harness(props=['C01', 'C02', 'C03'], targets=_TG, items=lambda: ['f'] if hx.ASPECT == 'C02' else ['f', 'i', 's'],
            bound='float attribute value (any finite binary64) for a float, an int and a string attribute',
            outside=_OUT, budget=(120, 400), glue=['pin_ieee_floats'])
def float_attr(v: float) -> bool:
    """
    pre: v == v and abs(v) < 1e300
    post: _
    """
    return _decide(hx.ITEM, True, v)


TAGS = ['lo', 'hi', 'n', 'other', 'zz']


@hx.harness(props=['C01', 'C02', 'C03'], targets=_TG,
            items=lambda: [a for a in _items() if a != 'zz' and (hx.ASPECT != 'C02' or RULES[a][0] == 'tag')],
            bound='attribute value given as a tag reference from {lo, hi, n, other, zz}', outside=_OUT, budget=(60, 200))
def tag_attr(k: int) -> bool:
    """
    pre: 0 <= k < len(TAGS)
    post: _
    """
    return _decide(hx.ITEM, True, A.AstTagRef('t.stone', 9, 0, TAGS[k]))
