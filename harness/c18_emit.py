"""C18 (partial) part 2: text emitted through the backend interface reaches the output byte for byte, including
braces and format-like sequences, prefixed by the indentation of the enclosing indent/block contexts, with
placeholders replaced by their registered text.  Symbolic text over the alphabet { } % a space."""
import re

import stone.backend as sb
from vlib import hx

N = hx.tier(2, 3)
ND = hx.tier(2, 5)


class _B(sb.CodeBackend):
    def generate(self, api):
        pass


class _T(sb.CodeBackend):
    tabs_for_indents = True

    def generate(self, api):
        pass


_OUT = ['emit_wrapped_text (textwrap regexes)', 'characters outside the alphabet { } % a space', 'generate_multiline_list']
_TG = ['stone.backend:Backend.emit_raw', 'stone.backend:Backend.output_buffer_to_string']


@hx.harness(props=['C18'], targets=_TG + ['stone.backend:Backend.emit'], items=['spaces', 'tabs'],
            bound='text <= %d chars over { } %% a space; nested indent(d1) / indent() with 0 <= d1 <= %d' % (N, ND),
            outside=_OUT, budget=(200, 900), glue=['install_py_format'])
def emit_indent(t: str, d: int, inner: bool) -> bool:
    """
    pre: len(t) <= N
    pre: re.fullmatch('[{}%a ]*', t)
    pre: 0 <= d <= ND
    post: _
    """
    tabs = hx.ITEM == 'tabs'
    b = (_T if tabs else _B)('/x', [])
    unit = '\t' if tabs else ' '
    step = 1 if tabs else 4
    with b.indent(d):
        if inner:
            with b.indent():
                b.emit(t)
            depth = d + step
        else:
            b.emit(t)
            depth = d
    b.emit()
    out = b.output_buffer_to_string()
    want = ((unit * depth + t + '\n') if t else '\n') + '\n'
    return hx.ok(out == want)


@hx.harness(props=['C18'], targets=_TG, bound='raw text <= %d chars over { } %% a space newline, ending in newline' % (N + 1),
            outside=_OUT, budget=(200, 900), glue=['install_py_format'])
def emit_raw(t: str) -> bool:
    """
    pre: len(t) <= N
    pre: re.fullmatch('[{}%a \\n]*', t)
    post: _
    """
    b = _B('/x', [])
    with b.indent():
        b.emit_raw(t + '\n')
    return hx.ok(b.output_buffer_to_string() == t + '\n')


@hx.harness(props=['C18'], targets=_TG + ['stone.backend:CodeBackend.block'],
            items=['before/kr', 'before/allman', 'after/kr', 'after/allman'],
            bound='block(before, after): one of before/after symbolic (<= %d chars over { } %% a), the other fixed; '
                  'K&R and Allman' % N,
            outside=_OUT, budget=(300, 900), glue=['install_py_format'])
def block(t: str) -> bool:
    """
    pre: len(t) <= N
    pre: re.fullmatch('[{}%a]*', t)
    post: _
    """
    which, style = hx.ITEM.split('/')
    allman = style == 'allman'
    before, after = (t, ';') if which == 'before' else ('b', t)
    b = _B('/x', [])
    with b.block(before, after, allman=allman):
        b.emit('x')
    out = b.output_buffer_to_string()
    if before and not allman:
        head = before + ' {\n'
    elif before:
        head = before + '\n{\n'
    else:
        head = '{\n'
    want = head + '    x\n' + '}' + after + '\n'
    return hx.ok(out == want)


def _line(text):
    return (text + '\n') if text else '\n'


@hx.harness(props=['C18'], targets=_TG + ['stone.backend:CodeBackend.block'], items=['open', 'close'],
            bound='block(before, after, delim): the opening or the closing delimiter is None or symbolic text (<= %d chars '
                  'over { } %% a, including the empty string), with and without `before`, K&R and Allman' % N,
            outside=_OUT, budget=(300, 900), glue=['install_py_format'])
def block_delim(t: str, is_none: bool, has_before: bool, allman: bool) -> bool:
    """
    pre: len(t) <= N
    pre: re.fullmatch('[{}%a]*', t)
    post: _
    """
    d = None if is_none else t
    delim = (d, 'end') if hx.ITEM == 'open' else ('do', d)
    before = 'b' if has_before else ''
    b = _B('/x', [])
    with b.block(before, ';', delim=delim, allman=allman):
        b.emit('x')
    out = b.output_buffer_to_string()
    if before and not allman:
        want = _line(before + ' ' + delim[0]) if delim[0] is not None else _line(before)
    else:
        want = (_line(before) if before else '') + (_line(delim[0]) if delim[0] is not None else '')
    want += '    x\n' + _line((delim[1] if delim[1] is not None else '') + ';')
    return hx.ok(out == want)


@hx.harness(props=['C18'], targets=_TG + ['stone.backend:Backend.emit_placeholder'],
            bound='named and positional placeholders registered with symbolic text <= %d chars over { } %% a, next to '
                  'an emitted line with symbolic text' % N,
            outside=_OUT, budget=(300, 900), glue=['install_py_format'])
def placeholder(t: str, p: str, positional: bool) -> bool:
    """
    pre: len(t) <= N and len(p) <= N
    pre: re.fullmatch('[{}%a]*', t) and re.fullmatch('[{}%a]*', p)
    post: _
    """
    b = _B('/x', [])
    if positional:
        b.emit_placeholder()
    else:
        b.emit_placeholder('imports')
    b.emit(t)
    if positional:
        b.add_positional_placeholder(p)
    else:
        b.add_named_placeholder('imports', p)
    out = b.output_buffer_to_string()
    want = p + ((t + '\n') if t else '\n')
    return hx.ok(out == want)


@hx.harness(props=['C18'], targets=_TG + ['stone.backend:CodeBackend.generate_multiline_list'],
            items=['compact', 'expanded', 'expanded-skip'],
            bound='generate_multiline_list with 0..3 items, each a symbolic string <= 1 char over {a, b, {} (items may be '
                  'equal), fixed before/after/delimiters; compact, expanded, expanded with skip_last_sep', outside=_OUT[:2],
            budget=(300, 900), glue=['install_py_format'])
def multiline_list(x: str, y: str, z: str, n: int) -> bool:
    """
    pre: len(x) <= 1 and len(y) <= 1 and len(z) <= 1
    pre: re.fullmatch('[ab{]*', x + y + z)
    pre: 0 <= n <= 3
    post: _
    """
    items = [x, y, z][:n]
    compact = hx.ITEM == 'compact'
    skip = hx.ITEM == 'expanded-skip'
    b = _B('/x', [])
    b.generate_multiline_list(items, before='f', after=';', delim=('(', ')'), compact=compact, sep=',',
                              skip_last_sep=skip)
    out = b.output_buffer_to_string()
    # reference pretty-printer (backend_ref.rst: one item per line)
    if n == 0:
        want = 'f();\n'
    elif n == 1:
        want = 'f(' + items[0] + ');\n'
    elif compact:
        lines = ['f(' + items[0] + ',']
        for k in range(1, n):
            last = k == n - 1
            body = items[k] + (');' if last else ',')
            lines.append(('  ' + body) if body else '')
        want = '\n'.join(lines) + '\n'
    else:
        lines = ['f(']
        for k in range(n):
            last = k == n - 1
            body = items[k] + ('' if (last and skip) else ',')
            lines.append(('    ' + body) if body else '')
        lines.append(');')
        want = '\n'.join(lines) + '\n'
    return hx.ok(out == want)
