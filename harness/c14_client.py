"""C14 (partial): methods of the python_client output (generated at check time from the catalogue) called with
symbolic arguments on a subclass whose request() records its arguments."""
import warnings
from typing import Tuple

from stone.backends.python_helpers import fmt_func, fmt_var
from stone.backends.python_rsrc import stone_validators as bv
from stone.ir import is_nullable_type, is_struct_type, is_tag_ref, is_union_type, is_void_type

from harness import c04_roundtrip as base
from vlib import fixtures, hx, valgen

NS = hx.tier(2, 3)


def _record(client, call):
    client.calls.append(call)
    return client.result


def _rec(client_cls):
    class Rec(client_cls):
        def __init__(self, result):
            self.calls = []
            self.result = result

        def request(self, route, namespace, request_arg, request_binary, timeout=None):
            return _record(self, (route, namespace, request_arg, request_binary))
    return Rec


# spec key -> (ir namespace, {namespace name: generated module}, recording client class)
SPECS = {
    'cat': (base.API.namespaces['cat'], base.MODS, _rec(fixtures.module('catgen', 'catclient').CatClient)),
    'catr': (base.API.namespaces['catr'], dict(base.MODS, catr=fixtures.module('catgen', 'catr')),
             _rec(fixtures.module('catgen', 'catclient').CatClient)),
    'cl2': (fixtures.api_for('client2').namespaces['class'], {'class': fixtures.module('cl2gen', 'class_')},
            _rec(fixtures.module('cl2gen', 'cl2client').Cl2Client)),
}


def routes():
    return ['%s/%s:%d' % (k, r.name, r.version) for k in sorted(SPECS) for r in SPECS[k][0].routes]


def _route(item):
    key, rest = item.split('/')
    name, ver = rest.split(':')
    ns, mods, rec = SPECS[key]
    for r in ns.routes:
        if r.name == name and r.version == int(ver):
            return r, ns, mods, rec
    raise KeyError(item)


I8 = base.I8
S4 = base.S4
B16 = base.B16
F2 = base.F2


@hx.harness(props=['C14'], targets=['harness.c14_client:_record'], items=routes,
            bound='every route of the catalogue and of the client2 spec (reserved-word namespace, only later versions deprecated, alias-of-nullable field) (struct / inherited struct / all-optional struct / union / Void arguments, '
                  'versions 1-3, deprecated with and without successor, upload and download styles); argument values '
                  'symbolic (all ints, IEEE floats, strings <= %d), each optional parameter passed or omitted, required '
                  'parameters all positional or all by keyword; result of request() symbolic' % NS,
            outside=['method naming/docstrings', '_to_file download helper', 'routes outside the catalogue',
                     'auth-type filtering (-w)'], budget=(150, 600), glue=['pin_ieee_floats'])
def call(i: I8, s: S4, b: B16, f: F2, by_keyword: bool, res: int) -> bool:
    """
    pre: all(len(x) <= NS for x in s)
    post: _
    """
    r, ns, MODS, Rec = _route(hx.ITEM)
    cat = MODS[ns.name]
    pool = hx.Pool(ints=i, strs=s, bools=b, floats=f)
    gen = valgen.Gen(MODS, pool, max_list=1)
    arg_dt = r.arg_data_type
    method = getattr(Rec, ns.name + '_' + fmt_func(r.name, version=r.version))
    upload = r.attrs.get('style') == 'upload'
    body = b'BODY'
    pos, kw = [], {}
    expected = {}
    try:
        if is_struct_type(arg_dt):
            probe = gen.cls(arg_dt)()
            for fld in arg_dt.all_fields:
                optional = is_nullable_type(fld.data_type) or fld.has_default
                if optional and not pool.bool():
                    if fld.has_default:
                        d = fld.default
                        if is_tag_ref(d):
                            d = getattr(gen.cls(d.union_data_type), d.tag_name)
                        expected[fld.name] = d
                    else:
                        expected[fld.name] = None
                    continue
                ft = fld.data_type.data_type if is_nullable_type(fld.data_type) else fld.data_type
                v, _ = gen.build(ft)
                try:
                    setattr(probe, fmt_var(fld.name), v)       # validity of the value is not the subject here
                except bv.ValidationError:
                    return True
                expected[fld.name] = v
                if optional or by_keyword:
                    kw[fld.name] = v
                else:
                    pos.append(v)
        elif is_union_type(arg_dt):
            v, _ = gen.build(arg_dt)
            if by_keyword:
                kw['arg'] = v
            else:
                pos.append(v)
    except hx.Skip:
        return True
    if upload:
        if by_keyword:
            kw['f'] = body
        else:
            pos.insert(0, body)
    client = Rec(res)
    with warnings.catch_warnings(record=True) as caught:
        warnings.simplefilter('always')
        ret = method(client, *pos, **kw)
    if len(client.calls) != 1:
        return hx.ok(False)
    route_obj, namespace, request_arg, request_binary = client.calls[0]
    key = r.name if r.version == 1 else '%s:%d' % (r.name, r.version)
    good = route_obj is cat.ROUTES[key] and namespace == ns.name
    good = good and (request_binary is body if upload else request_binary is None)
    if is_void_type(arg_dt):
        good = good and request_arg is None
    elif is_union_type(arg_dt):
        good = good and request_arg is v
    else:
        good = good and type(request_arg) is gen.cls(arg_dt)
        for name, want in expected.items():
            got = getattr(request_arg, fmt_var(name))      # attributes carry the Python-ised field name
            good = good and (got is None if want is None else (got == want and type(got) is type(want)))
    good = good and (ret is None if is_void_type(r.result_data_type) else ret is res)
    deprecated = [w for w in caught if issubclass(w.category, DeprecationWarning)]
    good = good and (len(deprecated) == 1 if r.deprecated else not deprecated)
    return hx.ok(good)
