"""C06: decoder totality (only ValidationError escapes), exact acceptance against the reference validator,
and validity of every returned value -- over symbolic JSON documents derived from each catalogue type by a
bounded number of structural mutations, plus small fully arbitrary documents."""
from typing import Dict, List, Tuple, Union

from stone.backends.python_rsrc import stone_serializers as ss
from stone.backends.python_rsrc import stone_validators as bv

from harness import c04_roundtrip as base
from refmodel import accept
from vlib import docgen, hx

NS = hx.tier(2, 3)
NL = hx.tier(1, 2)
MUT = hx.tier(1, 2)

J0 = Union[None, bool, int, str]
J1 = Union[None, bool, int, str, List[J0], Dict[str, J0]]
I8 = base.I8
S4 = base.S4
B32 = Tuple[bool, bool, bool, bool, bool, bool, bool, bool, bool, bool, bool, bool, bool, bool, bool, bool,
            bool, bool, bool, bool, bool, bool, bool, bool, bool, bool, bool, bool, bool, bool, bool, bool]
JJ = Tuple[J0, J0]

_T = ['stone.backends.python_rsrc.stone_serializers:json_compat_obj_decode']

SPLIT0 = {'cat.Maps': 16, 'cat.HasUnions': 16, 'cat.Nest': 16, 'cat.Opt': 8, 'cat.UO': 8, 'cat.Lists': 2,
          'cat.Deep': 2, 'cat.UsesAliases': 4, 'cat.Prims': 2}
SPLIT1 = dict(SPLIT0)

OUTSIDE = ['documents with more than %d structural mutation(s) of a valid shape' % MUT,
           'map keys outside {k, kk}', 'base64 / timestamp strings outside a concrete list',
           'json_decode string parsing (json.loads)', 'old_style, msgpack',
           'float literals in documents; integers given for float fields use the real-number model']


# types explored one top-level field / tag / subtype at a time (the rest of the document is a fixed valid instance)
FOCUS = ('cat.TreeAlias', 'cat.HasUnions', 'cat.Nest', 'cat.Maps', 'cat.UsesAliases', 'cat.Prims', 'cat.Opt', 'cat.UO', 'cat.Lists',
         'cat.Leaf', 'cat.WithBytes', 'cat.Res', 'cat.ResC', 'cat.UCChild', 'cat.Mid', 'cat.TagDefaults', 'cat.Colls', 'cat.UColl')


def focus_count(item):
    dt, _ = base.lookup(item)
    dt = accept.unalias(dt)
    if accept.is_struct_type(dt) and dt.has_enumerated_subtypes():
        return len(dt.get_enumerated_subtypes()) + 1
    if accept.is_union_type(dt):
        return len(dt.all_fields) + 1
    return len(dt.all_fields)


def focus_of(item):
    if '#' in item:
        return int(item.split('#')[1].split('@')[0])
    return None


def split(table, force=None, mutations=1):
    out = []
    for it in base.type_items():
        if it in FOCUS and hx.TIER == 'quick':
            n = focus_count(it)
            dt = accept.unalias(base.lookup(it)[0])
            if mutations == 0 and (accept.is_union_type(dt) or dt.has_enumerated_subtypes()):
                n -= 1          # the last focus index is the tag-mutation branch
            out.extend('%s#%d' % (it, k) for k in range(n))
            continue
        n = table.get(it, 1)
        if force and n > 1:
            n = force
        if n == 1:
            out.append(it)
        else:
            out.extend('%s@%d/%d' % (it, k, n) for k in range(n))
    return out


def _judge(dt, validator, doc, strict):
    verdict = accept.ref_validate(dt, doc, strict)
    try:
        v = ss.json_compat_obj_decode(validator, doc, strict=strict)
    except bv.ValidationError:
        return hx.ok(verdict != accept.ACC)
    if verdict == accept.REJ:
        return hx.ok(False)
    try:
        ss.json_compat_obj_encode(validator, v)        # a returned value must be valid for the type
    except bv.ValidationError:
        return hx.ok(False)
    except AssertionError:
        # the base struct substituted for an unknown subtype (json_serializer.rst) is a legal decoding result
        # that the encoder refuses to serialise; that refusal is not a decoder failure
        return hx.ok(True)
    return hx.ok(True)


SYM_LEVEL = hx.tier(1, 2)


def _gen(i, s, b, mutations, symbolic):
    dt, validator = base.lookup(hx.ITEM.split('#')[0])
    pool = hx.Pool(ints=i, strs=s, bools=base.fixed_bits(hx.ITEM) + tuple(b))
    g = docgen.DocGen(pool, mutations=mutations, max_list=NL, symbolic_leaves=symbolic, sym_level=SYM_LEVEL,
                      focus=focus_of(hx.ITEM))
    return dt, validator, g, g.gen(dt)


_LEAVES = ('leaves within %d enclosing user type(s): all ints, strings <= %d chars (deeper leaves: fixed valid values); '
           'lists <= %d items; maps over keys {k,kk}; strict and lenient' % (SYM_LEVEL, NS, NL))
_MUTS = ('wrong kind (None/bool/int/str/[]/{}) at any position, dropped required key, unknown key, explicit null, '
         'unknown/non-string/missing/catch-all tag, bare-string form, payload dropped/added')


@hx.harness(props=['C06'], targets=_T, items=lambda: split(SPLIT0, mutations=0),
            bound='per catalogue type: every document of the valid shape (every subset of optional keys, every tag and '
                  'subtype); ' + _LEAVES, outside=OUTSIDE, budget=(150, 600), glue=['pin_real_floats'])
def shaped(i: I8, s: S4, b: B32, strict: bool) -> bool:
    """
    pre: all(len(x) <= NS for x in s)
    post: _
    """
    try:
        dt, validator, g, doc = _gen(i, s, b, 0, True)
    except hx.Skip:
        return True
    return _judge(dt, validator, doc, strict)


@hx.harness(props=['C06'], targets=_T, items=lambda: split(SPLIT1),
            bound='per catalogue type: every document obtained from a valid shape by exactly one structural mutation: '
                  + _MUTS + '; mutated values symbolic (all ints, strings <= %d), other leaves fixed valid values; '
                  'strict and lenient' % NS, outside=OUTSIDE, budget=(150, 600), glue=['pin_real_floats'])
def mutated1(i: I8, s: S4, b: B32, strict: bool) -> bool:
    """
    pre: all(len(x) <= NS for x in s)
    post: _
    """
    try:
        dt, validator, g, doc = _gen(i, s, b, 1, False)
    except hx.Skip:
        return True
    if not g.applied:
        return True          # unmutated documents are the subject of `shaped`
    return _judge(dt, validator, doc, strict)


@hx.harness(props=['C06'], targets=_T, items=lambda: split(SPLIT1, 16), tiers=('thorough',),
            bound='as mutated1 with up to two structural mutations', outside=OUTSIDE, budget=(150, 600), glue=['pin_real_floats'])
def mutated2(i: I8, s: S4, b: B32, strict: bool) -> bool:
    """
    pre: all(len(x) <= NS for x in s)
    post: _
    """
    try:
        dt, validator, g, doc = _gen(i, s, b, 2, False)
    except hx.Skip:
        return True
    if len(g.applied) < 2:
        return True
    return _judge(dt, validator, doc, strict)


@hx.harness(props=['C06'], targets=_T, items=lambda: split(SPLIT1, 16), tiers=('thorough',),
            bound='as mutated1 with all leaves symbolic (' + _LEAVES + ')', outside=OUTSIDE, budget=(150, 600), glue=['pin_real_floats'])
def mutated1s(i: I8, s: S4, b: B32, strict: bool) -> bool:
    """
    pre: all(len(x) <= NS for x in s)
    post: _
    """
    try:
        dt, validator, g, doc = _gen(i, s, b, 1, True)
    except hx.Skip:
        return True
    return _judge(dt, validator, doc, strict)


@hx.harness(props=['C06'], targets=_T, bound='bug hunting: text <= 2 chars given for a Bytes value (base64 is C code: the '
            'text is realised, the search cannot be exhaustive)', budget=(20, 120), hunt=True)
def bytes_text(t: str, strict: bool) -> bool:
    """
    pre: len(t) <= 2
    post: _
    """
    try:
        v = ss.json_compat_obj_decode(bv.Bytes(), t, strict=strict)
    except bv.ValidationError:
        return hx.ok(True)
    return hx.ok(isinstance(v, bytes))


@hx.harness(props=['C06'], targets=_T, bound='bug hunting: text <= 3 chars given for a Timestamp value (strptime realises it)',
            budget=(20, 120), hunt=True)
def timestamp_text(t: str, strict: bool) -> bool:
    """
    pre: len(t) <= 3
    post: _
    """
    import datetime
    try:
        v = ss.json_compat_obj_decode(bv.Timestamp('%Y'), t, strict=strict)
    except bv.ValidationError:
        return hx.ok(True)
    return hx.ok(isinstance(v, datetime.datetime))


def explain(fname, args):
    import os
    if fname not in ('shaped', 'mutated1', 'mutated2', 'mutated1s'):
        return ''
    mut, sym = {'shaped': (0, True), 'mutated1': (1, False), 'mutated2': (2, False), 'mutated1s': (1, True)}[fname]
    dt, validator, g, doc = _gen(args['i'], args['s'], args['b'], mut, sym)
    verdict = accept.ref_validate(dt, doc, args['strict'])
    try:
        v = ss.json_compat_obj_decode(validator, doc, strict=args['strict'])
        got = 'returned %r' % (v,)
    except bv.ValidationError as e:
        got = 'ValidationError(%s)' % e
    except Exception as e:
        got = 'ESCAPED %s: %s' % (type(e).__name__, e)
    return 'doc=%r strict=%r mutations=%r reference=%s decoder=%s' % (doc, args['strict'], g.applied, verdict, got)
