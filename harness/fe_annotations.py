"""C02 (FINITE): the annotations and deprecation markers the API description carries for every field / tag / alias
equal the ones declared in the spec text.  The declaration is read from the AST (real parser), the description from
the real IRGenerator; the solver only enumerates the declaration sites of a fixed template."""
from stone.frontend import ast as A

from harness import fe_common as fe
from vlib import hx

TEMPLATE = '''namespace ns

annotation In = Omitted("internal")
annotation Al = Omitted("alpha")
annotation Dp = Deprecated()
annotation Pv = Preview()
annotation Rb = RedactedBlot()
annotation Rh = RedactedHash("(a)")

annotation_type Imp
    level Int32 = 1

annotation Hi = Imp(level=3)

alias Sec = String
    @Rh

alias Plain = String

struct S
    a Int32
        @In
    b String
        @Dp
        @Rb
    c Int32?
        @Pv
        @Al
    d Sec
        @Hi
    e Int32

struct SC extends S
    f String
        @Rh
        @In

union U
    v0
        @In
    v1
        @Dp
    v2
        @Pv
        @Hi
    t0 Int32
        @Al
        @Rb
    t1 String
    t2 Sec?
        @Dp

union_closed UC
    c0
        @Al
    c1 Int32
        @Hi
'''
TREE = fe.parse(TEMPLATE)
assert fe.run_text([('t.stone', TEMPLATE)])[0] == 'ok'
DEFS = {n.name: n for n in TREE if isinstance(n, A.AstAnnotationDef)}


def declared(annotations):
    out = dict(omitted=None, deprecated=False, preview=False, redactor=None, custom=[])
    for ref in annotations or []:
        d = DEFS[ref.annotation]
        if d.annotation_type == 'Omitted':
            out['omitted'] = d.args[0]
        elif d.annotation_type == 'Deprecated':
            out['deprecated'] = True
        elif d.annotation_type == 'Preview':
            out['preview'] = True
        elif d.annotation_type in ('RedactedBlot', 'RedactedHash'):
            out['redactor'] = (d.annotation_type, d.args[0] if d.args else None)
        else:
            out['custom'].append(d.name)
    return out


SITES = []
for _n in TREE:
    if isinstance(_n, (A.AstStructDef, A.AstUnionDef)):
        for _f in _n.fields:
            SITES.append((_n.name, _f.name, declared(getattr(_f, 'annotations', None))))
    elif isinstance(_n, A.AstAlias):
        SITES.append(('alias', _n.name, declared(_n.annotations)))


def described(api, owner, name):
    ns = api.namespaces['ns']
    if owner == 'alias':
        obj = ns.alias_by_name[name]
        red = obj.redactor
        return dict(omitted=None, deprecated=False, preview=False,
                    redactor=(type(red).__name__, red.regex) if red else None,
                    custom=[a.name for a in obj.custom_annotations])
    f = [x for x in ns.data_type_by_name[owner].fields if x.name == name][0]
    red = f.redactor
    return dict(omitted=f.omitted_caller, deprecated=bool(f.deprecated), preview=bool(f.preview),
                redactor=(type(red).__name__, red.regex) if red else None,
                custom=[a.name for a in f.custom_annotations])


@hx.harness(props=['C02'], targets=['stone.frontend.ir_generator:IRGenerator.generate_IR'],
            bound='every annotation site of a fixed template (%d struct fields, void and typed union tags of open and '
                  'closed unions, aliases; Omitted, Deprecated, Preview, RedactedBlot/Hash, a custom annotation) -- finite' % len(SITES),
            budget=(100, 300))
def annotations_declared(k: int) -> bool:
    """
    pre: 0 <= k < len(SITES)
    post: _
    """
    owner, name, want = SITES[int(k)]
    asts = fe.clone(TREE)
    kind, api = fe.run_ir([asts])
    if kind != 'ok':
        return hx.ok(False)
    return hx.ok(described(api, owner, name) == want)
