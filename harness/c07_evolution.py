"""C07: interoperability of peers compiled from spec versions A and B related by the compatible edits of
docs/evolve_spec.rst.  Both class sets are generated at check time from catalogue/evolution/<pair>/{a,b}."""
from typing import Tuple

from stone.backends.python_helpers import fmt_class
from stone.backends.python_rsrc import stone_serializers as ss
from stone.backends.python_rsrc import stone_validators as bv
from stone.ir import is_nullable_type, is_struct_type, is_tag_ref, is_union_type

from refmodel import evolve, wire
from vlib import fixtures, hx, valgen

NS = hx.tier(2, 3)
NL = hx.tier(1, 2)
I8 = Tuple[int, int, int, int, int, int, int, int]
S4 = Tuple[str, str, str, str]
B16 = Tuple[bool, bool, bool, bool, bool, bool, bool, bool, bool, bool, bool, bool, bool, bool, bool, bool]

RENAMES = {'rename': {'Old': 'New', 'OldU': 'NewU'}}     # A name -> B name

SIDES = {}
for _pair in fixtures.evolution_pairs():
    for _side in ('a', 'b'):
        _api = fixtures.api_for('evolution/%s/%s' % (_pair, _side))
        SIDES[(_pair, _side)] = (_api.namespaces['evo'], {'evo': fixtures.module('evo_%s_%s' % (_pair, _side), 'evo')})


def items():
    out = []
    for pair in fixtures.evolution_pairs():
        ns_a = SIDES[(pair, 'a')][0]
        for dt in ns_a.data_types:
            if dt.name in FOCUS:            # both tiers: the product of the holder's independent fields did not finish in 900 s
                out.extend('%s/%s#%d' % (pair, dt.name, k) for k in range(len(dt.all_fields)))
            else:
                out.append('%s/%s' % (pair, dt.name))
    return out


FOCUS = ('Holder', 'HolderU', 'HolderR')


def _focus(item):
    return int(item.split('#')[1]) if '#' in item else None


def _types(item):
    pair, name = item.split('#')[0].split('/')
    ns_a, mods_a = SIDES[(pair, 'a')]
    ns_b, mods_b = SIDES[(pair, 'b')]
    name_b = RENAMES.get(pair, {}).get(name, name)
    dt_a, dt_b = ns_a.data_type_by_name[name], ns_b.data_type_by_name[name_b]
    va = getattr(mods_a['evo'], fmt_class(name) + '_validator')
    vb = getattr(mods_b['evo'], fmt_class(name_b) + '_validator')
    return pair, (dt_a, va, mods_a), (dt_b, vb, mods_b)


def cls_of(mods, dt):
    return getattr(mods[dt.namespace.name], fmt_class(dt.name))


def matches(mods, value, dt, sh):
    """does the runtime value equal the shadow, with unset optional fields reading as their defaults?"""
    dt = wire.unalias(dt)
    if is_nullable_type(dt):
        if sh is None:
            return value is None
        return matches(mods, value, dt.data_type, sh)
    if isinstance(sh, list):
        return isinstance(value, list) and len(value) == len(sh) and \
            all(matches(mods, v, dt.data_type, x) for v, x in zip(value, sh))
    if isinstance(sh, dict):
        return isinstance(value, dict) and set(value) == set(sh) and \
            all(matches(mods, value[k], dt.value_data_type, x) for k, x in sh.items())
    if isinstance(sh, tuple) and sh[0] == 'struct':
        _, actual, fields = sh
        if type(value) is not cls_of(mods, actual):
            return False
        for f in actual.all_fields:
            got = getattr(value, f.name) if (f.name in fields or f.has_default or is_nullable_type(f.data_type)) else None
            if f.name in fields:
                if not matches(mods, got, f.data_type, fields[f.name]):
                    return False
            elif f.has_default:
                d = f.default
                if is_tag_ref(d):
                    d = getattr(cls_of(mods, d.union_data_type), d.tag_name)
                if got != d:
                    return False
            elif is_nullable_type(f.data_type):
                if got is not None:
                    return False
            else:
                return False
        return True
    if isinstance(sh, tuple) and sh[0] == 'union':
        _, u, tag, vsh = sh
        if type(value) is not cls_of(mods, u) or value._tag != tag:
            return False
        f = [x for x in u.all_fields if x.name == tag][0]
        if vsh is None:
            return value._value is None
        return matches(mods, value._value, f.data_type, vsh)
    return value == sh


_T = ['stone.backends.python_rsrc.stone_serializers:json_compat_obj_encode',
      'stone.backends.python_rsrc.stone_serializers:json_compat_obj_decode']
_OUT = ['edits outside the four catalogue pairs (fields, unions, subtypes, rename/alias)', 'Bytes/Timestamp payloads',
        'Void -> non-nullable tag read by the newer side (not promised by the guide)', 'json string entry points']
_BOUND = ('per type of each pair (holder structs: one field at a time): all ints, strings <= %d, lists <= %d, maps over {k,kk}, every tag/subtype incl. the new '
          'ones, every subset of optional fields incl. the new ones; strict and lenient' % (NS, NL))


@hx.harness(props=['C07'], targets=_T, items=items, bound='newer sender (B) -> older receiver (A): ' + _BOUND,
            outside=_OUT, budget=(300, 900))
def new_to_old(i: I8, s: S4, b: B16, strict: bool) -> bool:
    """
    pre: all(len(x) <= NS for x in s)
    post: _
    """
    pair, (dt_a, va, mods_a), (dt_b, vb, mods_b) = _types(hx.ITEM)
    pool = hx.Pool(ints=i, strs=s, bools=b)
    try:
        val_b, sh_b = valgen.Gen(mods_b, pool, max_list=NL, focus=_focus(hx.ITEM)).build(dt_b)
    except hx.Skip:
        return True
    try:
        want, unknown = evolve.view(dt_a, dt_b, sh_b, RENAMES.get(pair, {}))
    except evolve.Incompatible:
        return True
    except evolve.Inconsistent:
        return hx.ok(False)
    doc = ss.json_compat_obj_encode(vb, val_b)
    try:
        got = ss.json_compat_obj_decode(va, doc, strict=strict)
    except bv.ValidationError:
        return hx.ok(strict and unknown)           # strict rejects precisely the messages with something unknown
    if strict and unknown:
        return hx.ok(False)
    return hx.ok(matches(mods_a, got, dt_a, want))


@hx.harness(props=['C07'], targets=_T, items=items, bound='older sender (A) -> newer receiver (B): ' + _BOUND,
            outside=_OUT, budget=(300, 900))
def old_to_new(i: I8, s: S4, b: B16, strict: bool) -> bool:
    """
    pre: all(len(x) <= NS for x in s)
    post: _
    """
    pair, (dt_a, va, mods_a), (dt_b, vb, mods_b) = _types(hx.ITEM)
    pool = hx.Pool(ints=i, strs=s, bools=b)
    try:
        val_a, sh_a = valgen.Gen(mods_a, pool, max_list=NL, focus=_focus(hx.ITEM)).build(dt_a)
    except hx.Skip:
        return True
    try:
        want, unknown = evolve.view(dt_b, dt_a, sh_a, RENAMES.get(pair, {}))
    except evolve.Incompatible:
        return True
    doc = ss.json_compat_obj_encode(va, val_a)
    got = ss.json_compat_obj_decode(vb, doc, strict=strict)      # must be accepted in both modes
    return hx.ok((not unknown) and matches(mods_b, got, dt_b, want))
