"""Frontend slot (c): example values.  One example field of struct E (catalogue/holes/ex.stone) is symbolic per
harness instance; it sits in AstExampleField.value as the parser delivers it (bool / int / float / str / None for
null / list / dict / AstExampleRef).

Language rules (lang_ref.rst "Examples"): every required field must be specified, null marks a nullable field as
absent, a value must be a value of the field's type, fields with user-defined types take the label of an example
of that type, lists use brackets, maps braces.  C02: the computed example carries exactly the declared value.
C10: every computed example decodes strictly as the generated class and encodes back to the same document.
"""
import re
from typing import Dict, List, Union

from stone.backends.python_rsrc import stone_serializers as ss
from stone.backends.python_rsrc import stone_validators as bv
from stone.frontend import ast as A

from harness import fe_common as fe
from vlib import fixtures, hx

V = Union[None, bool, int, float, str]
VL = Union[None, bool, int, str, List[Union[None, bool, int, str]], Dict[str, Union[None, bool, int, str]]]
NSTR = hx.tier(3, 4)

ITEM = hx.ITEM if '.' in hx.ITEM else 'E.i'
SPECS = fixtures.read_specs('holes')
TEXT = SPECS[0][1]
BASE = fe.parse(TEXT, SPECS[0][0])
assert fe.run_text(SPECS)[0] == 'ok'
EXMOD = fixtures.module('exgen', 'ex')

# field -> reference rule
RULES = {
    'i': ('int', -3, 7, False), 'u': ('int', 0, 2**64 - 1, False), 'oi': ('int', -2**31, 2**31 - 1, True),
    'd': ('int', -2**31, 2**31 - 1, True),
    'f': ('float', None, 2.5, False), 'b': ('bool', False),
    's': ('str', 1, 3, None, False), 'p': ('str', None, None, '[a-z]+', False),
    'li': ('list-int', 0, 2**31 - 1, 2, False), 'ls': ('list-str', 2, True), 'm': ('map-int', 0, True),
    'mk': ('map-int', 2, True),          # Map(String(min_length=2), Int32)?
    'inner': ('ref', ('default', 'other'), False), 'oinner': ('ref', ('default', 'other'), True),
    'un': ('ref', ('default', 'numex', 'v', 'viatree'), False),
    'uc': ('ref', ('a', 'c'), True),           # void tags: own (c) and inherited from the parent union (a)
    'ts': ('text', True), 'byt': ('text', True),
}
TEMPLATE_VALUES = {'i': '0', 'u': '1', 'f': '1.5', 'b': 'true', 's': '"ab"', 'p': '"abc"', 'li': '[1]',
                   'inner': 'default', 'un': 'default'}


def _is_int(v):
    return isinstance(v, int) and not isinstance(v, bool)


def oracle_for(field, present, v):
    rule = RULES[field]
    optional = rule[-1]
    if not present:
        return 'accept' if optional else 'reject'
    kind = rule[0]
    if v is None:
        # "null can be used to mark that a nullable type is not present"
        if field in ('oi', 'ls', 'm', 'mk', 'oinner', 'ts', 'byt', 'uc'):
            return 'accept'
        return 'reject'
    if isinstance(v, A.AstExampleRef):
        if kind != 'ref':
            return 'reject'
        if field in ('un', 'uc') and v.label == 'other':
            return 'unspec'               # the implicit example of the catch-all tag
        return 'accept' if v.label in rule[1] else 'reject'
    if kind == 'ref':
        return 'reject'
    if kind == 'int':
        if isinstance(v, bool):
            return 'unspec'
        if not _is_int(v):
            return 'reject'
        return 'accept' if rule[1] <= v <= rule[2] else 'reject'
    if kind == 'float':
        if isinstance(v, bool):
            return 'unspec'
        if _is_int(v):
            return 'unspec' if v <= rule[2] else 'reject'
        if not isinstance(v, float):
            return 'reject'
        return 'accept' if v <= rule[2] else 'reject'
    if kind == 'bool':
        return 'accept' if isinstance(v, bool) else 'reject'
    if kind == 'text':
        if isinstance(v, (list, dict)):
            return 'reject'
        return 'unspec' if isinstance(v, str) else 'reject'
    if kind == 'str':
        if not isinstance(v, str):
            return 'reject'
        if rule[1] is not None and len(v) < rule[1]:
            return 'reject'
        if rule[2] is not None and len(v) > rule[2]:
            return 'reject'
        if rule[3] is not None and re.fullmatch(rule[3], v) is None:
            return 'reject'
        return 'accept'
    if kind == 'list-int':
        if not isinstance(v, list) or len(v) > rule[3]:
            return 'reject'
        if any(isinstance(x, bool) for x in v):
            return 'unspec'
        return 'accept' if all(_is_int(x) and rule[1] <= x <= rule[2] for x in v) else 'reject'
    if kind == 'list-str':
        if not isinstance(v, list):
            return 'reject'
        return 'accept' if all(isinstance(x, str) and len(x) <= rule[1] for x in v) else 'reject'
    if kind == 'map-int':
        if not isinstance(v, dict):
            return 'reject'
        if any(len(key) < rule[1] for key in v):
            return 'reject'               # the key type's constraints apply to example keys
        if any(isinstance(x, bool) for x in v.values()):
            return 'unspec'
        return 'accept' if all(_is_int(x) and -2**31 <= x <= 2**31 - 1 for x in v.values()) else 'reject'
    raise AssertionError(kind)


def _asts(struct, field, present, v):
    asts = fe.clone(BASE)
    node = [n for n in asts if getattr(n, 'name', None) == struct][0]
    ex = node.examples['default']
    if not present:
        ex.fields.pop(field, None)
    else:
        ex.fields[field] = A.AstExampleField(ex.path, ex.lineno + 1, 0, field, v)
    return [asts]


def _value_text(v):
    if isinstance(v, A.AstExampleRef):
        return v.label
    if isinstance(v, list):
        return '[%s]' % ', '.join(_value_text(x) for x in v)
    if isinstance(v, dict):
        return '{%s}' % ', '.join('%s: %s' % (fe.lit(k), _value_text(x)) for k, x in v.items())
    return fe.lit(v)


def _text(struct, field, present, v):
    """re-render the spec with the slot's example line replaced / removed / added (in struct's default example)"""
    lines = TEXT.split('\n')
    start = lines.index('struct %s%s' % (struct, ' extends E' if struct == 'EChild' else ''))
    ex_at = lines.index('    example default', start)
    end = ex_at + 1
    while end < len(lines) and lines[end].startswith('        '):
        end += 1
    body = [l for l in lines[ex_at + 1:end] if not l.strip().startswith(field + ' =')]
    if present:
        body.append('        %s = %s' % (field, _value_text(v)))
    return [(SPECS[0][0], '\n'.join(lines[:ex_at + 1] + body + lines[end:]))]


def _fidelity(struct, field, present, v):
    def check(api):
        ex = api.namespaces['ex'].data_type_by_name[struct].get_examples()['default'].value
        if not present or v is None:
            if field == 'd':
                return ex.get('d') == 4 if not present else True
            return field not in ex
        if isinstance(v, A.AstExampleRef):
            inner = {'default': {'n': 1}, 'other': {'n': 2}}
            if field in ('inner', 'oinner'):
                return dict(ex[field]) == inner[v.label]
            want = {'default': {'.tag': 'i', 'n': 1}, 'numex': {'.tag': 'num', 'num': 5}, 'v': {'.tag': 'v'},
                    'other': {'.tag': 'other'}, 'a': {'.tag': 'a'}, 'c': {'.tag': 'c'},
                    'viatree': {'.tag': 'tr', 'tr': {'.tag': 'sub', 'name': 't', 'n': 1}}}[v.label]
            return _plain(ex[field]) == want
        return ex[field] == v
    return check


def _runtime(struct):
    """every example of every struct / union of the template decodes strictly and encodes back to itself"""
    def check(api):
        everything = hx.ITEM.startswith('E.i')       # one instance family re-checks every type of the template
        for dt in api.namespaces['ex'].data_types:
            if not everything and dt.name != struct:
                continue
            validator = getattr(EXMOD, dt.name + '_validator')
            catch_all = [f.name for f in dt.all_fields if getattr(f, 'catch_all', False)]
            for label, ex in dt.get_examples().items():
                if label in catch_all:
                    continue                  # C10 excludes the implicit example of a catch-all tag
                doc = _plain(ex.value)
                try:
                    val = ss.json_compat_obj_decode(validator, doc, strict=True)
                except bv.ValidationError:
                    return False
                if _plain(ss.json_compat_obj_encode(validator, val)) != doc:
                    return False
        return True
    return check


def _plain(j):
    if isinstance(j, dict):
        return {k: _plain(v) for k, v in j.items()}
    if isinstance(j, list):
        return [_plain(v) for v in j]
    return j


def _decide(struct, field, present, v):
    if hx.ASPECT == 'C10' and isinstance(v, A.AstExampleRef) and v.label == 'other':
        return True                       # C10 excludes the implicit example of a catch-all tag
    return fe.decide(_asts(struct, field, present, v), lambda: _text(struct, field, present, v),
                     oracle_for(field, present, v), _fidelity(struct, field, present, v), _runtime(struct))


def _str_ok(v):
    return not isinstance(v, str) or (len(v) <= NSTR and re.fullmatch('[ab1 "\\\\]*', v) is not None)


_TG = ['stone.frontend.ir_generator:IRGenerator._populate_examples']
_OUT = ['syntax-level errors', 'more than one symbolic example field at a time', 'booleans as numbers, integers as '
        'float examples (accepted; not judged)', 'Bytes / Timestamp examples']
SCALAR_FIELDS = ['i', 'u', 'b', 's', 'p', 'oi', 'd']
TEXT_FIELDS = ['ts', 'byt']


def _items(fields):
    return ['E.' + f for f in fields] + ['EChild.' + f for f in fields[:2]]


def _accepting(items):
    """C02 / C10 judge accepted specs only: drop the instances in which nothing can be accepted"""
    if hx.ASPECT in ('C02', 'C10'):
        return [it for it in items if it not in ('E.i@float', 'E.s@float', 'E.inner@container', 'E.i@ref', 'E.li@ref',
                                                  'E.i@container')]
    return items


@hx.harness(props=['C01', 'C02', 'C03', 'C10'], targets=_TG, items=lambda: _items(SCALAR_FIELDS) + ([] if hx.ASPECT in ('C02', 'C10') else ['E.ts', 'E.byt']),
            bound='example value of one primitive field (present or absent): null, bool, any int, string <= %d chars over '
                  '{a,b,1,space,",\\}; also for the inherited field of a child struct' % NSTR, outside=_OUT,
            budget=(400, 900))
def scalar_example(present: bool, v: Union[None, bool, int, str]) -> bool:
    """
    pre: _str_ok(v)
    pre: ITEM.split('.')[1] not in TEXT_FIELDS or not isinstance(v, str)
    post: _
    """
    struct, field = hx.ITEM.split('.')
    return _decide(struct, field, present, v)


@hx.harness(props=['C01', 'C02', 'C03', 'C10'], targets=_TG, items=lambda: [x.split('@')[0] for x in _accepting(['E.f@float', 'E.i@float', 'E.s@float'])],
            bound='float example value (any finite binary64, IEEE-exact) for a float, an int and a string field',
            outside=_OUT, budget=(400, 900), glue=['pin_ieee_floats'])
def float_example(v: float) -> bool:
    """
    pre: v == v and abs(v) < 1e300
    post: _
    """
    struct, field = hx.ITEM.split('.')
    return _decide(struct, field, True, v)


LIST_FIELDS = ['li', 'ls', 'm', 'mk', 'i', 'inner']


@hx.harness(props=['C01', 'C02', 'C03', 'C10'], targets=_TG, items=lambda: [it for it in ['%s/%d' % (x.split('@')[0], k)
                                         for x in _accepting(['E.%s@container' % f for f in LIST_FIELDS]) for k in range(3)]
                           if hx.ASPECT not in ('C02', 'C10') or it in ('E.li/0', 'E.ls/0', 'E.m/1', 'E.mk/1')],
            bound='example value that is (0) a list (<= 2 items) (1) a map (keys from {k, kk}) of null/bool/int/string(<= 2), '
                  '(2) a scalar, for a list / map / scalar / struct typed field', outside=_OUT, budget=(400, 900))
def container_example(a: Union[None, bool, int, str], b: Union[None, bool, int, str], n: int) -> bool:
    """
    pre: 0 <= n <= 2
    pre: not isinstance(a, str) or (len(a) <= 2 and re.fullmatch('[ab1 ]*', a) is not None)
    pre: not isinstance(b, str) or (len(b) <= 2 and re.fullmatch('[ab1 ]*', b) is not None)
    post: _
    """
    kind = int(hx.ITEM.split('/')[1])
    struct, field = hx.ITEM.split('/')[0].split('.')
    if kind == 0:
        v = [a, b][:n]
    elif kind == 1:
        v = dict([('k', a), ('kk', b)][:n])
    else:
        v = a
    return _decide(struct, field, True, v)


LABELS = ['default', 'other', 'numex', 'v', 'zz', 'i', 'a', 'c', 'bt', 'viatree']
REF_FIELDS = ['inner', 'oinner', 'un', 'uc', 'i', 'li']


@hx.harness(props=['C01', 'C02', 'C03', 'C10'], targets=_TG, items=lambda: [x.split('@')[0] for x in _accepting(['E.%s@ref' % f for f in REF_FIELDS])],
            bound='example value that is a reference to a label from %s, for struct / nullable struct / union / child union '
                  '(own and inherited void tags) / int / list typed fields' % LABELS, outside=_OUT, budget=(300, 900))
def ref_example(k: int, present: bool) -> bool:
    """
    pre: 0 <= k < len(LABELS)
    post: _
    """
    struct, field = hx.ITEM.split('.')
    v = A.AstExampleRef('ex.stone', 50, 0, LABELS[k])
    return _decide(struct, field, present, v)
